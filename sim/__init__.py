"""Deterministic simulation harness for PyXAB (see /verif/DESIGN.md)."""
