"""Registry of checks: per property the scenario family, the armed oracles, sizes."""
import copy
import math
import random

from . import engine, gen
from .engine import H, run_scenario
from .oracles_basic import C01, C02, C03
from .oracles_tree import C04, C05, C06

DEFAULTS = {
    "T_HOO": {"nu": 1, "rho": 0.5},
    "HCT": {"nu": 1, "rho": 0.5, "c": 0.1, "delta": 0.01},
    "VHCT": {"nu": 1, "rho": 0.5, "c": 0.1, "delta": 0.01, "bound": 1},
    "POO": {"numax": 1, "rhomax": 0.9}, "GPO": {"numax": 1.0, "rhomax": 0.9},
    "PCT": {"numax": 1, "rhomax": 0.9}, "VPCT": {"numax": 1, "rhomax": 0.9},
    "DOO": {"delta": None}, "SOO": {"h_max": 100}, "StoSOO": {"k": None, "h_max": 100, "delta": None},
    "SequOOL": {}, "StroquOOL": {}, "VROOM": {"h_max": 100}, "Zooming": {"nu": 1, "rho": 0.9},
}

COMPONENTS = {
    "PyXAB.algos.* / PyXAB.partition.* / node classes": "real code imported from the working tree ($VERIF_REPO, default /repo)",
    "base learners inside POO/GPO/PCT/VPCT": "real class wrapped by a recording subclass of the same __name__",
    "Partition.make_children / deepen / node construction": "real, observed through a recording subclass handed in via the partition= argument",
    "numpy.random.{randint,uniform,choice,seed}": "stub owned by the simulator (scripted / explicit mode) or real generator with logged call-through (real mode)",
    "user / environment (rewards, time labels, query timing)": "stub: the simulated client",
    "synthetic objectives": "not used (reward programs are the simulator's own)",
}


def derived(sc):
    """Quantities derived from a scenario that known-finding predicates may refer to."""
    out = {}
    p = sc.get("params") or {}
    if sc.get("algo") in ("GPO", "PCT", "VPCT") and "rhomax" in p:
        n = p.get("rounds", 1000)
        Dmax = math.log(2) / math.log(1 / p["rhomax"])
        N = math.ceil(0.5 * Dmax * math.log((n / 2) / math.log(n / 2)))
        L = math.floor(n / (2 * N))
        out["gpo_N"] = N
        out["gpo_L"] = L
        out["gpo_L_zero"] = L == 0
        out["gpo_N_one"] = N == 1
    return out


class Check:
    prop = None
    level = "exploration"
    oracles = ()
    judged = None
    sizes = {"quick": 2000, "thorough": 40000}
    budget_s = {"quick": 100, "thorough": 1200}
    selftest = {"quick": 24, "thorough": 200}
    chunk = 50
    rule = ""
    assumptions = []
    fault_kinds = []
    probe_names = []
    components = COMPONENTS
    technique = "deterministic simulation: seeded search over histories with per-event oracles"
    level_text = ""
    level_note = ("samples histories (a clean batch is evidence, not proof); trusts the harness's transcription of the published rules, "
                  "NumPy, and the recording subclasses' faithfulness (they only log and delegate)")
    design_ref = "DESIGN.md section 5"

    def generate(self, r, seed, tier):
        raise NotImplementedError

    def run(self, sc):
        return run_scenario(sc, self.oracles, judged=self.judged or {self.prop})

    def distinct_key(self, sc, res):
        rng = sc["rng"]
        pol = rng.get("mode") if rng.get("mode") != "scripted" else "scripted:" + ",".join(
            "%s=%s" % kv for kv in sorted((rng.get("policy") or {}).items()))
        return (engine.algo_label(sc), sc["partition"]["cls"], sc["partition"].get("K"), len(sc["domain"]),
                (sc["rewards"].get("kind") or "explicit"), pol, res.shape)

    def nontrivial(self, sc, res):
        return res.rounds >= 10 and res.stats.get("expansions", 0) >= 1

    def extra_coverage(self, agg):
        return {}

    # ---- shrinking of concretised scenarios
    def shrinkers(self):
        return [shrink_schedule, shrink_rounds, shrink_params, shrink_domain, shrink_partition,
                shrink_rewards, shrink_tokens]


def _c(sc):
    return copy.deepcopy(sc)


def shrink_schedule(sc):
    out = []
    if sc.get("schedule"):
        c = _c(sc)
        c["schedule"] = []
        out.append(c)
        for k in range(len(sc["schedule"])):
            c = _c(sc)
            del c["schedule"][k]
            out.append(c)
            if sc["schedule"][k].get("times", 1) > 1:
                c = _c(sc)
                c["schedule"][k]["times"] = 1
                out.append(c)
    return out


def shrink_rounds(sc):
    out = []
    T = sc["rounds"]
    lo = 0 if sc.get("algo") == "RAW" else 1
    for t in sorted({0, 1, 2, T // 4, T // 2, T - 8, T - 2, T - 1}):
        if lo <= t < T:
            c = _c(sc)
            c["rounds"] = t
            c["schedule"] = [s for s in c.get("schedule") or [] if s["after"] <= t]
            out.append(c)
    return out


def shrink_params(sc):
    out = []
    dflt = DEFAULTS.get(sc["algo"], {})
    p = sc.get("params") or {}
    diff = [k for k in dflt if k in p and p[k] != dflt[k]]
    if len(diff) > 1:
        c = _c(sc)
        for k in diff:
            c["params"][k] = dflt[k]
        out.append(c)
    for k in diff:
        c = _c(sc)
        c["params"][k] = dflt[k]
        out.append(c)
    for k in ("n", "rounds"):
        if k in p and p[k] > 100:
            c = _c(sc)
            c["params"][k] = 100
            if c["rounds"] <= 100 or True:
                out.append(c)
    for k, v in p.items():
        if isinstance(v, float) and k not in dflt and v != round(v, 2) and round(v, 2) > 0:
            c = _c(sc)
            c["params"][k] = round(v, 2)
            out.append(c)
    for k in diff:
        v = p[k]
        if isinstance(v, float) and v != round(v, 2) and round(v, 2) > 0:
            c = _c(sc)
            c["params"][k] = round(v, 2)
            out.append(c)
    if sc.get("base") and sc["base"] != "T_HOO":
        c = _c(sc)
        c["base"] = "T_HOO"
        out.append(c)
    return out


def shrink_domain(sc):
    out = []
    d = len(sc["domain"])
    unit = [[0.0, 1.0] for _ in range(d)]
    if sc["domain"] != unit:
        c = _c(sc)
        c["domain"] = unit
        out.append(c)
        for k in range(d):
            if sc["domain"][k] != [0.0, 1.0]:
                c = _c(sc)
                c["domain"][k] = [0.0, 1.0]
                out.append(c)
    if d > 1:
        for k in range(d):
            c = _c(sc)
            del c["domain"][k]
            out.append(c)
    return out


def shrink_partition(sc):
    out = []
    p = sc["partition"]
    if p["cls"] != "BinaryPartition":
        c = _c(sc)
        c["partition"] = {"cls": "BinaryPartition"}
        out.append(c)
    if p["cls"] == "RandomKaryPartition":
        c = _c(sc)
        c["partition"] = {"cls": "KaryPartition", "K": p["K"]}
        out.append(c)
    if p["cls"] == "RandomBinaryPartition":
        pass
    if p.get("K", 2) > 2:
        for k in (2, 3):
            if k < p["K"]:
                c = _c(sc)
                c["partition"]["K"] = k
                out.append(c)
    return out


def shrink_rewards(sc):
    out = []
    rw = sc["rewards"].get("explicit")
    if rw is None:
        return out
    if any(tv != ["f", 0.0] for tv in rw):
        c = _c(sc)
        c["rewards"]["explicit"] = [["f", 0.0] for _ in rw]
        out.append(c)
        c = _c(sc)
        c["rewards"]["explicit"] = [["f", float(engine.untag(tv))] for tv in rw]
        if c["rewards"]["explicit"] != rw:
            out.append(c)
        c = _c(sc)
        c["rewards"]["explicit"] = [["f", float(round(engine.untag(tv), 1))] for tv in rw]
        if c["rewards"]["explicit"] != rw:
            out.append(c)
    # delete blocks of rounds (later rewards shift forward)
    T = sc["rounds"]
    n = min(T, len(rw))
    size = n // 2
    while size >= 1 and len(out) < 40:
        for start in range(0, n - size + 1, size):
            c = _c(sc)
            del c["rewards"]["explicit"][start:start + size]
            c["rounds"] = T - size
            c["schedule"] = [s for s in c.get("schedule") or [] if s["after"] <= c["rounds"]]
            if "labels" in c and c["labels"].get("scheme") == "explicit":
                c["labels"]["values"] = c["labels"]["values"][: c["rounds"]]
            out.append(c)
        size //= 2
    return out[:60]


def shrink_tokens(sc):
    out = []
    rng = sc["rng"]
    if rng.get("mode") != "explicit":
        return out
    toks = rng["tokens"]
    if any(t != 0.5 for t in toks):
        c = _c(sc)
        c["rng"]["tokens"] = [0.5 for _ in toks]
        out.append(c)
        c = _c(sc)
        c["rng"]["tokens"] = [t if isinstance(t, str) else 0.5 for t in toks]
        if c["rng"]["tokens"] != toks:
            out.append(c)
        c = _c(sc)
        c["rng"]["tokens"] = [t if isinstance(t, str) else round(t, 2) for t in toks]
        if c["rng"]["tokens"] != toks:
            out.append(c)
    return out


# --------------------------------------------------------------------------- C01

class CheckC01(Check):
    prop = "C01"
    design_ref = "DESIGN.md 5.1"
    technique = ("deterministic simulation: seeded swarm of ask/tell histories with fault injection at the RNG seam (end-point and "
                 "extreme draws), adversarial reward programs, step-count watchdog for hangs")
    level_text = ("every API event of every simulated history is checked for totality (no exception, no step-budget overrun) and for the "
                  "in-box predicate; crashes that live in rarely reached states are searched by seeded exploration and reported as "
                  "minimised explicit histories")
    oracles = (C01,)
    judged = {"C01"}
    sizes = {"quick": 6000, "thorough": 200000}
    budget_s = {"quick": 90, "thorough": 1500}
    chunk = 40
    rule = ("seeded swarm over algorithm x partition x box x parameters x reward program x RNG policy x T<=n, within the provisos "
            "of the statement (depth caps that hold the budget); a run is non-trivial if it completed >= 10 rounds and made >= 1 "
            "expansion; distinct = (algorithm[:base], partition class, K, d, reward kind, RNG policy, final leaf-set hash)")
    assumptions = [
        "boxes: |coordinate| <= ~1e6+3, width >= 5e-4; no overflow/denormal exploration",
        "depth-cap provisos: SOO (K^(h_max+1)-1)/(K-1) >= n; StoSOO (h_max+1)*k > n; VROOM any h_max>=1",
        "rewards are finite Python/NumPy reals; time labels 1..T (the documented loop)",
        "VROOM budgets n <= 128 (tree of K^floor(log2 n) cells is built at construction)",
    ]
    fault_kinds = ["rng:uniform:lo", "rng:uniform:hi", "rng:uniform:lo+", "rng:uniform:hi-", "uniform-returned-endpoint",
                   "rng:randint:first", "rng:randint:last", "rng:choice:minp", "rng:choice:first", "rng:choice:last"]
    probe_names = ["zero-width-cell-created"]

    def generate(self, r, seed, tier):
        algo = gen.weighted(r, [("T_HOO", 2), ("HCT", 2), ("VHCT", 2), ("POO", 3), ("GPO", 3), ("PCT", 1.5), ("VPCT", 1.5),
                                ("DOO", 2), ("SOO", 2), ("StoSOO", 2), ("SequOOL", 2), ("StroquOOL", 2), ("VROOM", 1.2),
                                ("Zooming", 2)])
        n = None
        if tier == "quick" and algo in ("POO", "GPO", "PCT", "VPCT", "T_HOO", "HCT", "VHCT"):
            n = r.choice([100, 100, 128, 200])
        # mid-run recommendation queries only where the documentation makes them harmless (C15's list)
        sp = 0.2 if algo in ("T_HOO", "HCT", "VHCT", "Zooming", "POO") else 0.0
        sc = gen.base_scenario(r, seed, algo, n=n, cap_mode=r.choice(["big", "big", "tight"]), sched_prob=sp)
        return sc


class CheckC02(Check):
    prop = "C02"
    design_ref = "DESIGN.md 5.2"
    technique = ("deterministic simulation: seeded expansion schedules on raw partitions and algorithm runs with scripted split draws "
                 "(including end points), exact grid-tiling oracle at every expansion")
    level_text = ("exact float tiling check of every split produced by seeded expansion orders and split draws, plus a leaf-tiling check at "
                  "the end of each run; numeric half of the statement only")
    oracles = (C02,)
    sizes = {"quick": 5000, "thorough": 150000}
    rule = ("(a) raw partitions driven by seeded schedules of deepen()/make_children(leaf) and (b) every expansion of algorithm "
            "runs; non-trivial = >= 3 expansions; distinct = (driver, partition class, K, d, RNG policy, final leaf-set hash)")
    assumptions = ["floats only: the 'arbitrary real bounds, symbolically' half of the statement is not decided here",
                   "|coordinate| <= ~1e6, width >= 5e-4 at the root; K <= 8, d <= 4"]
    fault_kinds = CheckC01.fault_kinds
    probe_names = ["zero-width-cell-created"]

    def generate(self, r, seed, tier):
        if r.random() < 0.7:
            return gen_raw(r, seed)
        algo = r.choice(["T_HOO", "HCT", "SOO", "StoSOO", "DOO", "SequOOL", "Zooming", "VROOM", "StroquOOL"])
        pool = gen.PARTS_BINARY_CHILD if algo == "VROOM" else None
        sc = gen.base_scenario(r, seed, algo, parts=pool, n=r.choice([100, 128, 200]), cap_mode="big", real_prob=0.15)
        return sc

    def run(self, sc):
        if sc.get("algo") == "RAW":
            from .raw import run_raw
            return run_raw(sc, self.oracles, judged={self.prop})
        return Check.run(self, sc)

    def nontrivial(self, sc, res):
        return res.stats.get("expansions", 0) >= 3

    def shrinkers(self):
        from .raw import shrink_ops
        return [shrink_ops, shrink_rounds, shrink_domain, shrink_partition, shrink_tokens]


class CheckC03(CheckC02):
    prop = "C03"
    design_ref = "DESIGN.md 5.3"
    technique = ("deterministic simulation: seeded interleavings of deepen/make_children and algorithm runs, refinement check against a "
                 "shadow tree built from observed node constructions")
    level_text = ("after every operation the partition's public getters are compared with a reference tree built only from observed "
                  "constructions; histories are sampled by seeded search")
    oracles = (C03,)
    rule = ("(a) raw partitions under seeded interleavings of deepen() and make_children(leaf, newlayer = leaf is at the deepest level) "
            "and (b) the tree of algorithm runs inspected after every API call that expanded; non-trivial = >= 3 expansions; "
            "distinct = (driver, partition class, K, d, RNG policy, final leaf-set hash)")
    assumptions = ["make_children is only called with the newlayer value the documented callers compute (parent.depth >= partition depth)"]
    probe_names = ["raw:expand-non-deepest-leaf", "raw:deepen-after-partial-layer"]

    def generate(self, r, seed, tier):
        if r.random() < 0.55:
            return gen_raw(r, seed)
        algo = r.choice(["T_HOO", "HCT", "VHCT", "SOO", "StoSOO", "DOO", "SequOOL", "Zooming", "StroquOOL", "POO", "VROOM"])
        pool = gen.PARTS_BINARY_CHILD if algo == "VROOM" else None
        sc = gen.base_scenario(r, seed, algo, parts=pool, n=r.choice([100, 128, 200, 300]), cap_mode="big", real_prob=0.3, ok_only=True)
        return sc


def gen_raw(r, seed):
    part = gen.gen_partition(r, gen.PARTS_ALL + [{"cls": "KaryPartition", "K": k} for k in (6, 7, 8)]
                             + [{"cls": "RandomKaryPartition", "K": k} for k in (6, 8)])
    dmax = 4 if part["cls"] != "DimensionBinaryPartition" else 3
    d = r.randint(1, dmax)
    dom = [gen.gen_side(r) for _ in range(d)] if r.random() > 0.2 else [[0.0, 1.0] for _ in range(d)]
    nops = r.choice([3, 6, 12, 25, 60])
    ops = []
    for _ in range(nops):
        k = r.random()
        if k < 0.15:
            ops.append(["deepen"])
        elif k < 0.6:
            ops.append(["leaf", r.random()])
        elif k < 0.8:
            ops.append(["deepest", r.random()])
        else:
            ops.append(["shallowest", r.random()])
    return {"algo": "RAW", "partition": part, "domain": dom, "ops": ops, "rounds": len(ops),
            "rng": gen.gen_rng(r, seed, real_prob=0.15), "rewards": {"kind": "zero"}, "max_cells": 3000}


class CheckC04(Check):
    prop = "C04"
    design_ref = "DESIGN.md 5.4"
    oracles = (C04,)
    sizes = {"quick": 3000, "thorough": 100000}
    chunk = 30
    technique = ("deterministic simulation: reward ledger (conservation / exactly-once) kept by the simulated client and diffed against "
                 "every reachable cell and against recording base learners after every round")
    level_text = ("after every receive_reward the evidence of every reachable cell is diffed against the pre-state and against the "
                  "simulator's own ledger of which reward went to which cell / learner; seeded search over algorithms, partitions, reward "
                  "programs and RNG outcomes")
    rule = ("seeded swarm over all algorithms (wrappers over each base learner, with recording learners) x partitions x boxes x reward "
            "programs x RNG policies; non-trivial = >= 10 rounds and >= 1 expansion; distinct = (algorithm[:base], partition, K, d, reward "
            "kind, RNG policy, final leaf-set hash)")
    assumptions = ["StroquOOL's restart of its final candidates' lists at the start of validation is the documented exception",
                   "rounds after an algorithm terminated its own schedule (StroquOOL end, GPO after the last phase) need not be recorded",
                   "reads node evidence through the getters / attributes named in the property's anchors"]
    fault_kinds = CheckC01.fault_kinds
    probe_names = ["stroquool-validation-restart", "stroquool-terminated", "gpo-validation-rounds", "gpo-rounds-after-schedule"]

    def generate(self, r, seed, tier):
        algo = gen.weighted(r, [("T_HOO", 2), ("HCT", 2), ("VHCT", 2), ("POO", 2), ("GPO", 2), ("PCT", 1), ("VPCT", 1),
                                ("DOO", 1.5), ("SOO", 1.5), ("StoSOO", 2), ("SequOOL", 1.5), ("StroquOOL", 2), ("VROOM", 1),
                                ("Zooming", 2)])
        pool = gen.PARTS_BINARY_CHILD if algo == "VROOM" else None
        n = r.choice([100, 128, 200, 300, 400])
        sc = gen.base_scenario(r, seed, algo, parts=pool, n=n, cap_mode="big", ok_only=True,
                               sched_prob=0.2 if algo in ("T_HOO", "HCT", "VHCT", "Zooming", "POO") else 0.0)
        if algo in ("GPO", "PCT", "VPCT"):
            d = derived(sc)
            if d.get("gpo_L_zero"):
                sc["params"]["rhomax"] = 0.9
        return sc


class CheckC05(Check):
    prop = "C05"
    design_ref = "DESIGN.md 5.5"
    oracles = (C04, C05, C06)
    judged = {"C05"}
    sizes = {"quick": 1500, "thorough": 40000}
    chunk = 12
    technique = ("deterministic simulation: layered refinement check of U, B, path and stop rule, re-derived from the raw history after "
                 "every round (nondeterministic specification with admissible sets)")
    level_text = ("U of every cell is recomputed from the simulator's ledger, B from the observed U, the path from the observed B and the "
                  "stop rule from the thresholds, after every round of seeded histories (also for base learners inside POO/GPO)")
    rule = ("T_HOO/HCT/VHCT alone and as recorded base learners inside POO/GPO; tie-prone reward programs; T up to 600; non-trivial = "
            ">= 10 rounds and >= 1 expansion; distinct = (algorithm[:base], partition, K, d, reward kind, RNG policy, final leaf-set hash)")
    assumptions = ["delta-tilde conventions admitted: counter before or after the increment; cap 1/2 or 1 in the threshold (the code uses both)",
                   "VHCT threshold may see the variance before or after the last reward",
                   "relative tolerance 1e-9 (scaled by the largest |reward|) on recomputed U values; B relations exact on observed values"]
    fault_kinds = CheckC01.fault_kinds
    probe_names = ["c05-admissible-set-ambiguous", "c05-stop-at-internal-cell-admissible", "c05-refresh-round-with->=3-cells",
                   "c05-pulled-internal-cell"]

    def generate(self, r, seed, tier):
        algo = gen.weighted(r, [("T_HOO", 3), ("HCT", 3), ("VHCT", 3), ("POO", 1.5), ("GPO", 1)])
        n = r.choice([100, 128, 200, 300, 600]) if tier == "thorough" else r.choice([100, 128, 200, 300])
        kinds = ["const", "int", "fewlevels", "gauss", "obj", "neg", "unit", "zero", "late", "altsign", "objneg"]
        sc = gen.base_scenario(r, seed, algo, n=n, ok_only=True, reward_kinds=kinds, sched_prob=0.15 if algo != "GPO" else 0.0)
        if algo == "GPO" and derived(sc).get("gpo_L_zero"):
            sc["params"]["rhomax"] = 0.9
        if algo in ("HCT", "VHCT") and r.random() < 0.4:
            # parameter corner where thresholds are small and trees grow fast
            sc["params"]["c"] = gen.loguniform(r, 0.02, 0.2)
            sc["params"]["nu"] = gen.loguniform(r, 0.5, 5)
        return sc


class CheckC06(CheckC05):
    prop = "C06"
    design_ref = "DESIGN.md 5.6"
    judged = {"C06"}
    technique = ("deterministic simulation: growth rule evaluated on shadow state at every expansion and every non-expansion of seeded "
                 "histories")
    level_text = ("every round's expansion decision (both directions) is compared with the published truncation / threshold rule computed "
                  "from the ledger; where and what grew is observed through the recording partition")
    probe_names = ["c06-thoo-truncation-reached", "c06-decision-ambiguous", "c06-expansions-judged", "c06-pulled-internal-cell-not-resplit"]


CHECKS = {}


def register(c):
    CHECKS[c.prop] = c()


for _c_ in (CheckC01, CheckC02, CheckC03, CheckC04, CheckC05, CheckC06):
    register(_c_)
