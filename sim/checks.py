"""Registry of checks: per property the scenario family, the armed oracles, sizes."""
import copy
import math
import random

from . import engine, gen
from .engine import H, run_scenario
from .oracles_basic import C01, C02, C03
from .oracles_tree import C04, C05, C06, Ledger
from .oracles_flat import C07, C08, C12, StopOutsideProviso
from .oracles_misc import C09, C10, C11, C13

DEFAULTS = {
    "T_HOO": {"nu": 1, "rho": 0.5},
    "HCT": {"nu": 1, "rho": 0.5, "c": 0.1, "delta": 0.01},
    "VHCT": {"nu": 1, "rho": 0.5, "c": 0.1, "delta": 0.01, "bound": 1},
    "POO": {"numax": 1, "rhomax": 0.9}, "GPO": {"numax": 1.0, "rhomax": 0.9},
    "PCT": {"numax": 1, "rhomax": 0.9}, "VPCT": {"numax": 1, "rhomax": 0.9},
    "DOO": {"delta": None}, "SOO": {"h_max": 100}, "StoSOO": {"k": None, "h_max": 100, "delta": None},
    "SequOOL": {}, "StroquOOL": {}, "VROOM": {"h_max": 100}, "Zooming": {"nu": 1, "rho": 0.9},
}

COMPONENTS = {
    "PyXAB.algos.* / PyXAB.partition.* / node classes": "real code imported from the working tree ($VERIF_REPO, default /repo)",
    "base learners inside POO/GPO/PCT/VPCT": "real class wrapped by a recording subclass of the same __name__",
    "Partition.make_children / deepen / node construction": "real, observed through a recording subclass handed in via the partition= argument",
    "numpy.random.{randint,uniform,choice,seed}": "stub owned by the simulator (scripted / explicit mode) or real generator with logged call-through (real mode)",
    "user / environment (rewards, time labels, query timing)": "stub: the simulated client",
    "synthetic objectives": "not used (reward programs are the simulator's own)",
}


def derived(sc):
    """Quantities derived from a scenario that known-finding predicates may refer to."""
    out = {}
    p = sc.get("params") or {}
    if sc.get("algo") in ("GPO", "PCT", "VPCT") and "rhomax" in p:
        n = p.get("rounds", 1000)
        Dmax = math.log(2) / math.log(1 / p["rhomax"])
        N = math.ceil(0.5 * Dmax * math.log((n / 2) / math.log(n / 2)))
        L = math.floor(n / (2 * N))
        out["gpo_N"] = N
        out["gpo_L"] = L
        out["gpo_L_zero"] = L == 0
        out["gpo_N_one"] = N == 1
    return out


class Check:
    prop = None
    level = "exploration"
    oracles = ()
    judged = None
    sizes = {"quick": 2000, "thorough": 40000}
    budget_s = {"quick": 240, "thorough": 1200}
    selftest = {"quick": 24, "thorough": 200}
    chunk = 50
    rule = ""
    assumptions = []
    fault_kinds = []
    probe_names = []
    components = COMPONENTS
    technique = "deterministic simulation: seeded search over histories with per-event oracles"
    level_text = ""
    level_note = ("samples histories (a clean batch is evidence, not proof); trusts the harness's transcription of the published rules, "
                  "NumPy, and the recording subclasses' faithfulness (they only log and delegate)")
    design_ref = "DESIGN.md section 5"

    def generate(self, r, seed, tier):
        raise NotImplementedError

    def generate_indexed(self, i, r, seed, tier):
        return self.generate(r, seed, tier)

    record_all_digests = 0

    def post_batch(self, tier, seed, agg):
        return []

    # violations of the infrastructure oracle that this property's statement covers as well:
    # {(property, clause, algorithm) -> clause of this property}; algorithm None = any
    adopt = {}

    def run(self, sc):
        res = run_scenario(sc, self.oracles, judged=self.judged or {self.prop})
        if res.foreign is not None and self.adopt:
            f = res.foreign
            for (prop, clause, algo), mine in self.adopt.items():
                if isinstance(mine, tuple):
                    mine, needle = mine
                    if needle not in (f.get("detail") or ""):
                        continue
                if f["property"] == prop and (clause is None or f["clause"] == clause) and (algo is None or f["algo"].split(":")[0] == algo):
                    info = dict(f)
                    info["detail"] = "%s [observed by the ledger as %s/%s]" % (f["detail"], f["property"], f["clause"])
                    info["property"] = self.prop
                    info["clause"] = mine
                    info["signature"] = engine.signature(info)
                    res.violation = info
                    res.foreign = None
                    break
        return res

    def legal(self, sc):
        """Is this (shrunk) scenario still inside the statement?  The minimiser never keeps a candidate that is not."""
        return True

    def distinct_key(self, sc, res):
        rng = sc["rng"]
        pol = rng.get("mode") if rng.get("mode") != "scripted" else "scripted:" + ",".join(
            "%s=%s" % kv for kv in sorted((rng.get("policy") or {}).items()))
        return (engine.algo_label(sc), sc["partition"]["cls"], sc["partition"].get("K"), len(sc["domain"]),
                (sc["rewards"].get("kind") or "explicit"), pol, res.shape)

    def nontrivial(self, sc, res):
        return res.rounds >= 10 and res.stats.get("expansions", 0) >= 1

    def extra_coverage(self, agg):
        return {}

    # ---- shrinking of concretised scenarios
    def shrinkers(self):
        return [shrink_schedule, shrink_rounds, shrink_params, shrink_domain, shrink_partition,
                shrink_rewards, shrink_tokens]


def _c(sc):
    return copy.deepcopy(sc)


def shrink_schedule(sc):
    out = []
    if sc.get("neighbours"):
        c = _c(sc)
        c["neighbours"] = []
        out.append(c)
        for nb_i, nb in enumerate(sc["neighbours"]):
            for key, val in (("pre", 0), ("every", 1)):
                if nb.get(key) != val:
                    c = _c(sc)
                    c["neighbours"][nb_i][key] = val
                    out.append(c)
            if nb["sc"]["rounds"] > 5:
                c = _c(sc)
                c["neighbours"][nb_i]["sc"]["rounds"] = nb["sc"]["rounds"] // 2
                out.append(c)
    if sc.get("schedule"):
        c = _c(sc)
        c["schedule"] = []
        out.append(c)
        for k in range(len(sc["schedule"])):
            c = _c(sc)
            del c["schedule"][k]
            out.append(c)
            if sc["schedule"][k].get("times", 1) > 1:
                c = _c(sc)
                c["schedule"][k]["times"] = 1
                out.append(c)
    return out


def shrink_rounds(sc):
    out = []
    T = sc["rounds"]
    lo = 0 if sc.get("algo") == "RAW" else 1
    for t in sorted({0, 1, 2, T // 4, T // 2, T - 8, T - 2, T - 1}):
        if lo <= t < T:
            c = _c(sc)
            c["rounds"] = t
            c["schedule"] = [s for s in c.get("schedule") or [] if s["after"] <= t]
            out.append(c)
    return out


def shrink_params(sc):
    out = []
    dflt = DEFAULTS.get(sc["algo"], {})
    p = sc.get("params") or {}
    diff = [k for k in dflt if k in p and p[k] != dflt[k]]
    if len(diff) > 1:
        c = _c(sc)
        for k in diff:
            c["params"][k] = dflt[k]
        out.append(c)
    for k in diff:
        c = _c(sc)
        c["params"][k] = dflt[k]
        out.append(c)
    for k in ("n", "rounds"):
        # a smaller declared budget, but never below the number of rounds driven (T <= n is part of the statements)
        if k in p and p[k] > max(100, sc["rounds"]):
            c = _c(sc)
            c["params"][k] = max(100, sc["rounds"])
            if "budget" in c:
                c["budget"] = c["params"][k]
            out.append(c)
    def legal(k, x):
        # a rounded parameter must stay inside its documented open range
        return x > 0 and not (k in ("rho", "rhomax", "delta") and x >= 1)

    for k, v in p.items():
        if isinstance(v, float) and k not in dflt and v != round(v, 2) and legal(k, round(v, 2)):
            c = _c(sc)
            c["params"][k] = round(v, 2)
            out.append(c)
    for k in diff:
        v = p[k]
        if isinstance(v, float) and v != round(v, 2) and legal(k, round(v, 2)):
            c = _c(sc)
            c["params"][k] = round(v, 2)
            out.append(c)
    if sc.get("base") and sc["base"] != "T_HOO":
        c = _c(sc)
        c["base"] = "T_HOO"
        out.append(c)
    return out


def shrink_domain(sc):
    out = []
    d = len(sc["domain"])
    unit = [[0.0, 1.0] for _ in range(d)]
    if sc["domain"] != unit:
        c = _c(sc)
        c["domain"] = unit
        out.append(c)
        for k in range(d):
            if sc["domain"][k] != [0.0, 1.0]:
                c = _c(sc)
                c["domain"][k] = [0.0, 1.0]
                out.append(c)
    if d > 1:
        for k in range(d):
            c = _c(sc)
            del c["domain"][k]
            out.append(c)
    return out


def shrink_partition(sc):
    out = []
    p = sc["partition"]
    if p["cls"] != "BinaryPartition":
        c = _c(sc)
        c["partition"] = {"cls": "BinaryPartition"}
        out.append(c)
    if p["cls"] == "RandomKaryPartition":
        c = _c(sc)
        c["partition"] = {"cls": "KaryPartition", "K": p["K"]}
        out.append(c)
    if p["cls"] == "RandomBinaryPartition":
        pass
    if p.get("K", 2) > 2:
        for k in (2, 3):
            if k < p["K"]:
                c = _c(sc)
                c["partition"]["K"] = k
                out.append(c)
    return out


def shrink_rewards(sc):
    out = []
    rw = sc["rewards"].get("explicit")
    if rw is None:
        return out
    if any(tv != ["f", 0.0] for tv in rw):
        c = _c(sc)
        c["rewards"]["explicit"] = [["f", 0.0] for _ in rw]
        out.append(c)
        c = _c(sc)
        c["rewards"]["explicit"] = [["f", float(engine.untag(tv))] for tv in rw]
        if c["rewards"]["explicit"] != rw:
            out.append(c)
        c = _c(sc)
        c["rewards"]["explicit"] = [["f", float(round(float(engine.untag(tv)), 1))] for tv in rw]
        if c["rewards"]["explicit"] != rw:
            out.append(c)
    # delete blocks of rounds (later rewards shift forward)
    T = sc["rounds"]
    n = min(T, len(rw))
    size = n // 2
    while size >= 1 and len(out) < 40:
        for start in range(0, n - size + 1, size):
            c = _c(sc)
            del c["rewards"]["explicit"][start:start + size]
            c["rounds"] = T - size
            c["schedule"] = [s for s in c.get("schedule") or [] if s["after"] <= c["rounds"]]
            if "labels" in c and c["labels"].get("scheme") == "explicit":
                c["labels"]["values"] = c["labels"]["values"][: c["rounds"]]
            out.append(c)
        size //= 2
    return out[:60]


def shrink_tokens(sc):
    out = []
    rng = sc["rng"]
    if rng.get("mode") != "explicit":
        return out
    toks = rng["tokens"]
    if any(t != 0.5 for t in toks):
        c = _c(sc)
        c["rng"]["tokens"] = [0.5 for _ in toks]
        out.append(c)
        c = _c(sc)
        c["rng"]["tokens"] = [t if isinstance(t, str) else 0.5 for t in toks]
        if c["rng"]["tokens"] != toks:
            out.append(c)
        c = _c(sc)
        c["rng"]["tokens"] = [t if isinstance(t, str) else min(round(t, 2), 0.99) for t in toks]
        if c["rng"]["tokens"] != toks:
            out.append(c)
    return out


# --------------------------------------------------------------------------- C01

class CheckC01(Check):
    prop = "C01"
    design_ref = "DESIGN.md 5.1"
    technique = ("deterministic simulation: seeded swarm of ask/tell histories with fault injection at the RNG seam (end-point and "
                 "extreme draws), adversarial reward programs, step-count watchdog for hangs")
    level_text = ("every API event of every simulated history is checked for totality (no exception, no step-budget overrun) and for the "
                  "in-box predicate; crashes that live in rarely reached states are searched by seeded exploration and reported as "
                  "minimised explicit histories")
    oracles = (C01,)
    judged = {"C01"}
    sizes = {"quick": 9000, "thorough": 400000}
    chunk = 40
    rule = ("seeded swarm over algorithm x partition x box x parameters x reward program x RNG policy x T<=n, within the provisos "
            "of the statement (depth caps that hold the budget); a run is non-trivial if it completed >= 10 rounds and made >= 1 "
            "expansion; distinct = (algorithm[:base], partition class, K, d, reward kind, RNG policy, final leaf-set hash)")
    assumptions = [
        "boxes: |coordinate| <= ~1e6+3, width >= 5e-4; no overflow/denormal exploration",
        "depth-cap provisos: SOO (K^(h_max+1)-1)/(K-1) >= n; StoSOO (h_max+1)*k > n; VROOM any h_max>=1",
        "rewards are finite Python/NumPy reals; time labels 1..T (the documented loop)",
        "VROOM budgets n <= 128 (tree of K^floor(log2 n) cells is built at construction), except 2 (quick) / 24 (thorough) runs per batch "
        "with budgets 1030-1100 driven past round 1024",
    ]
    fault_kinds = ["rng:uniform:lo", "rng:uniform:hi", "rng:uniform:lo+", "rng:uniform:hi-", "uniform-returned-endpoint",
                   "rng:randint:first", "rng:randint:last", "rng:choice:minp", "rng:choice:first", "rng:choice:last"]
    probe_names = []

    def legal(self, sc):
        return gen.within_c01_provisos(sc)

    long_runs = {"quick": 2, "thorough": 24}

    def generate_indexed(self, i, r, seed, tier):
        if i % self.chunk == 0 and i // self.chunk < self.long_runs[tier]:
            return vroom_long(r, seed)
        return self.generate(r, seed, tier)

    def generate(self, r, seed, tier):
        algo = gen.weighted(r, [("T_HOO", 2), ("HCT", 2), ("VHCT", 2), ("POO", 3), ("GPO", 3), ("PCT", 1.5), ("VPCT", 1.5),
                                ("DOO", 2), ("SOO", 2), ("StoSOO", 2), ("SequOOL", 2), ("StroquOOL", 2), ("VROOM", 1.2),
                                ("Zooming", 2)])
        n = None
        if tier == "quick" and algo in ("POO", "GPO", "PCT", "VPCT", "T_HOO", "HCT", "VHCT"):
            n = r.choice([100, 100, 128, 200])
        # mid-run recommendation queries only where the documentation makes them harmless (C15's list)
        sp = 0.2 if algo in ("T_HOO", "HCT", "VHCT", "Zooming", "POO") else 0.0
        sc = gen.base_scenario(r, seed, algo, n=n, cap_mode=r.choice(["big", "big", "tight"]), sched_prob=sp)
        if algo in ("DOO", "SOO", "SequOOL", "StoSOO", "T_HOO", "HCT", "Zooming") and r.random() < 0.2:
            # greedy refinement into a corner of the box: cells shrink to float resolution right at the outer faces
            sc["rewards"] = {"kind": "edge", "seed": seed, "sign": r.choice([1.0, -1.0]), "types": "f"}
            if algo in ("DOO", "SOO", "SequOOL"):
                # deep enough to reach float resolution: ~53 / log2(K) levels in one dimension
                nn = r.choice([200, 300, 400])
                sc["params"]["n"] = nn
                sc["budget"] = nn
                sc["rounds"] = nn
                if algo == "SOO":
                    sc["params"]["h_max"] = nn
                if r.random() < 0.6:
                    sc["domain"] = sc["domain"][:1]
        if algo in ("StroquOOL", "SequOOL", "DOO", "StoSOO", "HCT", "T_HOO", "Zooming") and r.random() < 0.12:
            # large declared budgets (schedules derived from n look different there); the run itself stays short
            big = r.choice([1000, 2000, 3200, 5000, 10000])
            key = "rounds" if algo == "T_HOO" else "n"
            if algo not in ("HCT", "Zooming"):
                sc["params"][key] = big
                sc["budget"] = big
                if algo == "StoSOO":
                    sc["params"]["h_max"] = max(sc["params"].get("h_max", 100), 100)
            sc["rounds"] = r.choice([200, 400, 600])
            if algo == "StoSOO":
                # keep the depth cap large enough for the rounds driven (the cap was drawn for the smaller budget)
                nn = sc["params"]["n"]
                k = sc["params"].get("k")
                kk = k if k is not None else math.ceil(nn / (math.log(nn) ** 3))
                sc["params"]["h_max"] = max(sc["params"]["h_max"], sc["rounds"] // kk + 1)
        if algo == "Zooming" and r.random() < 0.15:
            gen.zooming_deep(r, sc, seed)
        if algo != "VROOM" and sc["meta"].get("known") is None and r.random() < 0.3:
            # get_last_point after every round: on the current tree every recommendation call except VROOM's is a read
            # (or recomputes the same path), so one run of T rounds stands for the runs of every length 1..T
            # ("the point returned by get_last_point after the loop", for every loop length up to the budget)
            sc["schedule"] = [{"after": i, "times": 1} for i in range(1, sc["rounds"] + 1)]
        return sc


class CheckC02(Check):
    prop = "C02"
    design_ref = "DESIGN.md 5.2"
    technique = ("deterministic simulation: seeded expansion schedules on raw partitions and algorithm runs with scripted split draws "
                 "(including end points), exact grid-tiling oracle at every expansion")
    level_text = ("exact float tiling check of every split produced by seeded expansion orders and split draws, plus a leaf-tiling check at "
                  "the end of each run; numeric half of the statement only")
    oracles = (C02,)
    sizes = {"quick": 4000, "thorough": 60000}
    rule = ("(a) raw partitions driven by seeded schedules of deepen()/make_children(leaf) and (b) every expansion of algorithm "
            "runs; non-trivial = >= 3 expansions; distinct = (driver, partition class, K, d, RNG policy, final leaf-set hash)")
    assumptions = ["floats only: the 'arbitrary real bounds, symbolically' half of the statement is not decided here",
                   "|coordinate| <= ~1e6, width >= 5e-4 at the root; raw partitions K <= 64, d <= 6 (DimensionBinary d <= 5); algorithm runs K <= 8, d <= 5"]
    fault_kinds = CheckC01.fault_kinds + ["neighbour-partition"]
    probe_names = ["zero-width-cell-created"]

    def generate(self, r, seed, tier):
        if r.random() < 0.7:
            return gen_raw(r, seed)
        algo = r.choice(["T_HOO", "HCT", "SOO", "StoSOO", "DOO", "SequOOL", "Zooming", "VROOM", "StroquOOL"])
        pool = gen.PARTS_BINARY_CHILD if algo == "VROOM" else None
        sc = gen.base_scenario(r, seed, algo, parts=pool, n=r.choice([100, 128, 200]), cap_mode="big", real_prob=0.15)
        return sc

    def run(self, sc):
        if sc.get("algo") == "RAW":
            from .raw import run_raw
            return run_raw(sc, self.oracles, judged={self.prop})
        return Check.run(self, sc)

    def nontrivial(self, sc, res):
        return res.stats.get("expansions", 0) >= 3

    def shrinkers(self):
        from .raw import shrink_ops
        return [shrink_ops, shrink_rounds, shrink_domain, shrink_partition, shrink_tokens]


class CheckC03(CheckC02):
    prop = "C03"
    sizes = {"quick": 10000, "thorough": 300000}
    design_ref = "DESIGN.md 5.3"
    technique = ("deterministic simulation: seeded interleavings of deepen/make_children and algorithm runs, refinement check against a "
                 "shadow tree built from observed node constructions")
    level_text = ("after every operation the partition's public getters are compared with a reference tree built only from observed "
                  "constructions; histories are sampled by seeded search")
    oracles = (C03,)
    rule = ("(a) raw partitions under seeded interleavings of deepen() and make_children(leaf, newlayer = leaf is at the deepest level) "
            "and (b) the tree of algorithm runs inspected after every API call that expanded; non-trivial = >= 3 expansions; "
            "distinct = (driver, partition class, K, d, RNG policy, final leaf-set hash)")
    assumptions = ["make_children is only called with the newlayer value the documented callers compute (parent.depth >= partition depth)"]
    probe_names = ["raw:expand-non-deepest-leaf", "raw:deepen-after-partial-layer"]
    fault_kinds = CheckC01.fault_kinds + ["neighbour-partition"]

    def generate(self, r, seed, tier):
        if r.random() < 0.55:
            return gen_raw(r, seed)
        algo = r.choice(["T_HOO", "HCT", "VHCT", "SOO", "StoSOO", "DOO", "SequOOL", "Zooming", "StroquOOL", "POO", "VROOM"])
        pool = gen.PARTS_BINARY_CHILD if algo == "VROOM" else None
        sc = gen.base_scenario(r, seed, algo, parts=pool, n=r.choice([100, 128, 200, 300]), cap_mode="big", real_prob=0.3, ok_only=True)
        if algo == "Zooming" and r.random() < 0.6:
            # parameters under which cells are refined after a few pulls, multi-way splits, long runs: deep and bushy trees
            sc["params"] = {"nu": gen.loguniform(r, 3, 40), "rho": r.uniform(0.8, 0.98)}
            if r.random() < 0.5 and len(sc["domain"]) > 1:
                sc["partition"] = {"cls": "DimensionBinaryPartition"}
            sc["rounds"] = r.choice([200, 400, 800])
        elif algo == "Zooming" and r.random() < 0.4:
            gen.zooming_deep(r, sc, seed)
        return sc


def vroom_long(r, seed):
    """VROOM with a budget beyond 1024 driven past round 1024 (the only family with VROOM budgets above 128: one such run costs
    20-50 s, so there are two per quick batch and a few dozen per thorough batch)."""
    n = r.choice([1030, 1040, 1100])
    d = r.choice([1, 1, 2])
    return {"algo": "VROOM", "params": {"n": n, "h_max": r.choice([8, 10, 12]), "b": gen.loguniform(r, 0.1, 2), "f_max": gen.loguniform(r, 0.5, 5)},
            "partition": dict(r.choice(gen.PARTS_BINARY_CHILD)), "domain": [gen.gen_side(r) for _ in range(d)], "budget": n,
            "rounds": r.choice([1027, 1030]), "rewards": gen.gen_rewards(r, ["unit", "gauss", "fewlevels", "int", "obj"], seed),
            "rng": gen.gen_rng(r, seed, 0.3), "schedule": [], "meta": {"c01_proviso": True, "known": None, "long": True}}


def big_int_rewards(r, sc):
    """Rewards as exact Python integers around +-2^60 (only for the algorithms that merely compare rewards)."""
    rw = sc["rewards"]
    if rw.get("kind") in ("bernoulli", "score", "ramp", "decay"):
        rw["kind"] = "gauss"
    rw["types"] = "L"
    rw["bigsign"] = r.choice([1, 1, -1])
    rw.pop("scale", None)
    rw.pop("offset", None)
    for nb in sc.get("neighbours") or []:
        pass
    return sc


def gen_raw(r, seed):
    part = gen.gen_partition(r, gen.PARTS_ALL + [{"cls": "KaryPartition", "K": k} for k in (6, 7, 8)]
                             + [{"cls": "RandomKaryPartition", "K": k} for k in (6, 8)])
    if "K" in part and r.random() < 0.08:
        part["K"] = r.choice([10, 12, 16, 24, 32, 48, 64])     # very large arities (chained / vectorised boundary arithmetic)
    dmax = 4 if part["cls"] != "DimensionBinaryPartition" else 3
    d = r.randint(1, dmax)
    if r.random() < 0.05:
        d = r.choice([5, 6]) if part["cls"] != "DimensionBinaryPartition" else r.choice([4, 5])
    dom = [gen.gen_side(r) for _ in range(d)] if r.random() > 0.3 else [gen.gen_side(r)] * d
    dom = [list(x) for x in dom]
    nops = r.choice([3, 6, 12, 25, 60])
    ops = []
    if r.random() < 0.12:
        # one long chain down one side of the box: depth up to 80 (index arithmetic, float resolution)
        side = r.choice([0.0, 1.0, 1.0])
        ops = [["chain", side] for _ in range(r.choice([30, 50, 80]))]
        nops = 0
    nb = r.random() < 0.25
    nb_dims = [r.randint(1, 4) for _ in range(2)]
    if nb and nops:
        ops.append(["other", nb_dims[0], r.random()])
    for _ in range(nops):
        k = r.random()
        if nb and r.random() < 0.3:
            ops.append(["other", r.choice(nb_dims), r.random()])
        if k < 0.15:
            ops.append(["deepen"])
        elif k < 0.6:
            ops.append(["leaf", r.random()])
        elif k < 0.8:
            ops.append(["deepest", r.random()])
        else:
            ops.append(["shallowest", r.random()])
    return {"algo": "RAW", "partition": part, "domain": dom, "ops": ops, "rounds": len(ops),
            "rng": gen.gen_rng(r, seed, real_prob=0.15), "rewards": {"kind": "zero"}, "max_cells": 3000,
            "aliased_rows": d > 1 and all(x == dom[0] for x in dom) and r.random() < 0.6}


class CheckC04(Check):
    prop = "C04"
    design_ref = "DESIGN.md 5.4"
    # StopOutsideProviso: with a binding depth cap SOO / StoSOO stop proposing points (pull returns None); the judged part of
    # such a run ends there, quietly - what happens up to that pull (and in its place, should a point come back) is judged
    oracles = (StopOutsideProviso, C04)
    judged = {"C04"}
    sizes = {"quick": 6000, "thorough": 150000}
    chunk = 30
    technique = ("deterministic simulation: reward ledger (conservation / exactly-once) kept by the simulated client and diffed against "
                 "every reachable cell and against recording base learners after every round")
    level_text = ("after every receive_reward the evidence of every reachable cell is diffed against the pre-state and against the "
                  "simulator's own ledger of which reward went to which cell / learner; seeded search over algorithms, partitions, reward "
                  "programs and RNG outcomes")
    rule = ("seeded swarm over all algorithms (wrappers over each base learner, with recording learners) x partitions x boxes x reward "
            "programs x RNG policies; non-trivial = >= 10 rounds and >= 1 expansion; distinct = (algorithm[:base], partition, K, d, reward "
            "kind, RNG policy, final leaf-set hash)")
    assumptions = ["StroquOOL's restart of its final candidates' lists at the start of validation is the documented exception",
                   "rounds after an algorithm terminated its own schedule (StroquOOL end, GPO after the last phase) need not be recorded",
                   "reads node evidence through the getters / attributes named in the property's anchors"]
    fault_kinds = CheckC01.fault_kinds + ["interject-query", "mid-round-query"]
    probe_names = ["stroquool-validation-restart", "stroquool-terminated", "gpo-validation-rounds", "gpo-rounds-after-schedule"]

    def generate(self, r, seed, tier):
        algo = gen.weighted(r, [("T_HOO", 2), ("HCT", 2), ("VHCT", 2), ("POO", 2), ("GPO", 2), ("PCT", 1), ("VPCT", 1),
                                ("DOO", 1.5), ("SOO", 1.5), ("StoSOO", 2), ("SequOOL", 1.5), ("StroquOOL", 2), ("VROOM", 1),
                                ("Zooming", 2)])
        pool = gen.PARTS_BINARY_CHILD if algo == "VROOM" else None
        n = r.choice([100, 128, 200, 300, 400])
        # recommendation queries between rounds and between a pull and its reward (reads on the current tree)
        sc = gen.base_scenario(r, seed, algo, parts=pool, n=n, cap_mode=r.choice(["big", "big", "any"]), ok_only=True, sched_prob=0.3,
                               mid_prob=0.5, neighbour_prob=0.2)
        if algo in ("GPO", "PCT", "VPCT"):
            d = derived(sc)
            if d.get("gpo_L_zero"):
                sc["params"]["rhomax"] = 0.9
        if algo == "Zooming" and r.random() < 0.25:
            gen.zooming_deep(r, sc, seed)
        return sc


class CheckC05(Check):
    prop = "C05"
    design_ref = "DESIGN.md 5.5"
    # each of C05 / C06 arms only its own oracle (plus the ledger): with both armed, a change that breaks both ends every
    # run of one check in the other's verdict ("foreign") before its own clause can be reached
    oracles = (Ledger, C05)
    judged = {"C05"}
    sizes = {"quick": 4000, "thorough": 60000}
    chunk = 12
    technique = ("deterministic simulation: layered refinement check of U, B, path and stop rule, re-derived from the raw history after "
                 "every round (nondeterministic specification with admissible sets)")
    level_text = ("U of every cell is recomputed from the simulator's ledger, B from the observed U, the path from the observed B and the "
                  "stop rule from the thresholds, after every round of seeded histories (also for base learners inside POO/GPO)")
    rule = ("T_HOO/HCT/VHCT alone and as recorded base learners inside POO/GPO; tie-prone reward programs; T up to 600; non-trivial = "
            ">= 10 rounds and >= 1 expansion; distinct = (algorithm[:base], partition, K, d, reward kind, RNG policy, final leaf-set hash)")
    assumptions = ["delta-tilde conventions admitted: counter before or after the increment; cap 1/2 or 1 in the threshold (the code uses both)",
                   "VHCT threshold may see the variance before or after the last reward",
                   "relative tolerance 1e-9 (scaled by the largest |reward|) on recomputed U values; B relations exact on observed values"]
    fault_kinds = CheckC01.fault_kinds
    probe_names = ["c05-admissible-set-ambiguous", "c05-stop-at-internal-cell-admissible", "c05-refresh-round-with->=3-cells",
                   "c05-pulled-internal-cell"]

    def generate(self, r, seed, tier):
        algo = gen.weighted(r, [("T_HOO", 3), ("HCT", 3), ("VHCT", 3), ("POO", 1.5), ("GPO", 1)])
        n = gen.gen_budget(r, 100, 600 if tier == "thorough" else 300)
        kinds = ["const", "int", "fewlevels", "gauss", "obj", "neg", "unit", "zero", "late", "altsign", "objneg", "edge", "decimal", "decimal"]
        sc = gen.base_scenario(r, seed, algo, n=n, ok_only=True, reward_kinds=kinds, sched_prob=0.2 if algo != "GPO" else 0.0,
                               mid_prob=0.4, neighbour_prob=0.25)
        if algo == "GPO" and derived(sc).get("gpo_L_zero"):
            sc["params"]["rhomax"] = 0.9
        if algo in ("HCT", "VHCT") and r.random() < 0.4:
            # parameter corner where thresholds are small and trees grow fast
            sc["params"]["c"] = gen.loguniform(r, 0.02, 0.2)
            sc["params"]["nu"] = gen.loguniform(r, 0.5, 5)
        if algo in ("HCT", "VHCT", "T_HOO") and r.random() < (0.012 if tier == "quick" else 0.05):
            # long histories: the round counter crosses 1024 and 2048 (refresh epochs, delta-tilde, thresholds of the late epochs)
            T = r.choice([1100, 1100, 2300, 2300]) if tier == "quick" else r.choice([1100, 2300, 4200])
            sc["rounds"] = T
            sc["budget"] = T
            if algo == "T_HOO":
                # T-HOO grows one expansion per round unless truncated: a shallow truncation depth keeps the tree (and the
                # per-round re-derivation) small, while the root and its children collect thousands of rewards
                sc["params"] = {"rounds": T, "nu": gen.loguniform(r, 0.05, 0.3), "rho": r.uniform(0.2, 0.6)}
                sc["partition"] = dict(r.choice(gen.PARTS_BINARY_CHILD))
            elif T > 2000:
                # thresholds so large that the tree stays tiny: single cells collect more than 1024 (2048) pulls
                sc["params"]["c"] = gen.loguniform(r, 2.0, 6.0)
                sc["params"]["nu"] = gen.loguniform(r, 0.2, 1.0)
                sc["params"]["rho"] = r.uniform(0.3, 0.7)
                sc["partition"] = dict(r.choice(gen.PARTS_BINARY_CHILD))     # two cells share the pulls
            else:
                # thresholds that keep the tree small enough to re-derive every round
                sc["params"]["c"] = gen.loguniform(r, 0.3, 1.0)
                sc["params"]["nu"] = gen.loguniform(r, 0.1, 2.0)
            sc["schedule"] = [s for s in sc.get("schedule") or [] if s["after"] <= T]
            sc["neighbours"] = []
        return sc


class CheckC06(CheckC05):
    prop = "C06"
    design_ref = "DESIGN.md 5.6"
    oracles = (Ledger, C06)
    judged = {"C06"}
    sizes = {"quick": 5000, "thorough": 80000}
    technique = ("deterministic simulation: growth rule evaluated on shadow state at every expansion and every non-expansion of seeded "
                 "histories")
    level_text = ("every round's expansion decision (both directions) is compared with the published truncation / threshold rule computed "
                  "from the ledger; where and what grew is observed through the recording partition")
    probe_names = ["c06-thoo-truncation-reached", "c06-decision-ambiguous", "c06-expansions-judged", "c06-pulled-internal-cell-not-resplit"]


class CheckC08(Check):
    prop = "C08"
    design_ref = "DESIGN.md 5.8"
    oracles = (StopOutsideProviso, Ledger, C08)
    judged = {"C08"}
    adopt = {("C04", "credit-set", "SOO"): "evaluated-twice", ("C04", "credit-set", "DOO"): "evaluated-twice",
             ("C04", "credit-set", "StoSOO"): "over-k", ("C04", "credit-value", "StoSOO"): "over-k"}
    sizes = {"quick": 5000, "thorough": 100000}
    chunk = 40
    technique = ("deterministic simulation: nondeterministic specification of the optimistic sweep evaluated on shadow state (ledger + "
                 "shadow tree) at every expansion and every hand-out")
    level_text = ("each expansion and each evaluated cell of seeded SOO/StoSOO/DOO histories is checked against the published rule on the "
                  "simulator's own ledger; ties and depth caps (binding and not) are generated on purpose")
    rule = ("SOO/StoSOO/DOO x partitions x boxes x reward programs (ties, negatives) x budgets x depth caps (big, tight, binding) x k; "
            "non-trivial = >= 10 rounds and >= 1 expansion; distinct = (algorithm, partition, K, d, reward kind, RNG policy, leaf-set hash)")
    assumptions = ["a run whose depth cap is exhausted (outside C01's proviso) is judged only up to the pull that returns no point / spins",
                   "DOO's default delta(h) is recomputed from the shadow tree (max squared half-width along dimension 0 at depth h)",
                   "b-values within 1e-9 relative tolerance count as maximal"]
    fault_kinds = CheckC01.fault_kinds
    probe_names = ["c08-soo-sweep-with->=2-expansions", "c08-soo-second-sweep-in-one-pull", "c08-stosoo-k-cap-hit",
                   "c08-doo-expansion-of-non-deepest-leaf"]

    def generate(self, r, seed, tier):
        algo = r.choice(["SOO", "StoSOO", "DOO"])
        n = gen.gen_budget(r, 100, 400 if tier == "quick" else 1000)
        kinds = ["const", "int", "fewlevels", "gauss", "obj", "neg", "unit", "zero", "late", "altsign", "objneg", "edge"]
        sc = gen.base_scenario(r, seed, algo, n=n, reward_kinds=kinds, sched_prob=0.2, mid_prob=0.5, neighbour_prob=0.25)
        if algo in ("SOO", "DOO") and r.random() < 0.05:
            big_int_rewards(r, sc)
        return sc


class CheckC12(Check):
    prop = "C12"
    design_ref = "DESIGN.md 5.12"
    oracles = (Ledger, C12)
    judged = {"C12"}
    # a reward booked on another cell than the one handed out means some search cell is evaluated twice (or never)
    adopt = {("C04", "credit-set", "SequOOL"): "evaluated-twice", ("C04", "credit-value", "SequOOL"): "evaluated-twice"}
    sizes = {"quick": 8000, "thorough": 300000}
    chunk = 50
    technique = ("deterministic simulation: opening-schedule specification evaluated on shadow state at every expansion and every round")
    level_text = ("every opening (depth order, per-depth budget floor(h_max/h), best unopened cell, children evaluated once and in order) and "
                  "the post-schedule behaviour are checked on seeded histories with ties and negative rewards")
    rule = ("SequOOL with n in 10..600 x partitions x boxes x reward programs; non-trivial = >= 10 rounds and >= 1 expansion; distinct = "
            "(partition, K, d, reward kind, RNG policy, leaf-set hash)")
    assumptions = ["h_max = floor(n / H_n) with H_n summed in floating point"]
    fault_kinds = CheckC01.fault_kinds
    probe_names = ["c12-depth-advance-by-last-unopened-cell", "c12-depth-advance-by-budget", "c12-schedule-exhausted"]

    def generate(self, r, seed, tier):
        n = r.choice([10, 12, 17, 30, 50, 100, 128, 200, 300, 600]) if r.random() < 0.3 else r.randint(10, 600 if tier == "quick" else 2000)
        sc = gen.base_scenario(r, seed, "SequOOL", n=n, neighbour_prob=0.15, T=r.choice([n, n, n, max(1, n // 2), r.randint(1, n)]),
                               reward_kinds=["const", "int", "fewlevels", "gauss", "obj", "neg", "unit", "zero", "late", "altsign", "edge"])
        if r.random() < 0.3:
            sc["schedule"] = [{"after": r.randint(max(1, sc["rounds"] - 20), sc["rounds"]), "times": 1} for _ in range(3)]
        if r.random() < 0.06:
            big_int_rewards(r, sc)
        return sc


class CheckC07(Check):
    prop = "C07"
    design_ref = "DESIGN.md 5.7"
    oracles = (StopOutsideProviso, Ledger, C07)
    judged = {"C07"}
    sizes = {"quick": 8000, "thorough": 300000}
    chunk = 50
    technique = ("deterministic simulation: the simulated client's ledger of (cell, point, reward) versus the recommendation, under "
                 "sign/tie reward adversaries and short runs")
    level_text = ("the recommendation of every seeded run (T from 1 to n, all-negative / tied / constant reward programs) is compared with "
                  "the best evaluated candidate in the simulator's own ledger")
    rule = ("DOO/SOO/SequOOL/StoSOO/StroquOOL/POO/GPO/PCT/VPCT x partitions x boxes x sign/tie reward programs x T in 1..n; non-trivial = "
            ">= 10 rounds and >= 1 expansion; distinct = (algorithm[:base], partition, K, d, reward kind, RNG policy, leaf-set hash)")
    assumptions = ["StroquOOL is judged only in runs that reached its validation phase; GPO/PCT/VPCT only once all phases are over",
                   "SequOOL's post-schedule centre pulls are not search evaluations"]
    fault_kinds = CheckC01.fault_kinds
    probe_names = ["c07-stroquool-validation-judged", "c07-gpo-final-judged"]

    def generate(self, r, seed, tier):
        algo = gen.weighted(r, [("DOO", 3), ("SOO", 3), ("SequOOL", 3), ("StoSOO", 3), ("StroquOOL", 3), ("POO", 2), ("GPO", 1.5),
                                ("PCT", 1), ("VPCT", 1)])
        n = gen.gen_budget(r, 100, 400 if tier == "quick" else 1000)
        kinds = ["neg", "neg", "zero", "const", "int", "fewlevels", "late", "objneg", "obj", "gauss", "altsign", "edge"]
        sc = gen.base_scenario(r, seed, algo, n=n, reward_kinds=kinds, ok_only=True, cap_mode=r.choice(["big", "tight"]),
                               sched_prob=0.3 if algo in ("DOO", "SOO", "SequOOL", "StoSOO", "POO") else 0.0, mid_prob=0.4,
                               neighbour_prob=0.15)
        if algo in ("GPO", "PCT", "VPCT"):
            if derived(sc).get("gpo_L_zero"):
                sc["params"]["rhomax"] = 0.9
            sc["rounds"] = n if r.random() < 0.7 else sc["rounds"]
        if algo == "StroquOOL" and r.random() < 0.7:
            sc["rounds"] = r.randint(max(1, n // 25), max(2, n // 5))
        if algo in ("DOO", "SOO", "SequOOL") and r.random() < 0.07:
            big_int_rewards(r, sc)
        if algo in ("DOO", "SOO", "SequOOL", "POO", "GPO", "PCT", "VPCT") and r.random() < 0.4:
            # these ignore the time argument (C15), so any increasing labels are a legal way to drive them
            sc["labels"] = r.choice([{"scheme": "zero"}, {"scheme": "offset", "offset": r.choice([17, 18, 4, 101])},
                                     {"scheme": "gaps", "seed": seed, "start": r.randint(0, 3), "maxgap": 3}])
            if r.random() < 0.6:
                sc["rounds"] = n
        return sc


RHOMAX_GRID = [0.3, 0.5, 0.7, 0.8, 0.85, 0.9, 0.93, 0.95]


class CheckC09(Check):
    prop = "C09"
    design_ref = "DESIGN.md 5.9"
    oracles = (C09,)
    judged = {"C09"}
    table_n = {"quick": (100, 400), "thorough": (100, 3000)}
    extra = {"quick": 4000, "thorough": 60000}
    chunk = 40
    technique = ("deterministic simulation with recording base learners (peer spies): reference schedule (reward independent) enumerated "
                 "exhaustively over a range of n x rho_max grid, plus seeded search over reward histories, partitions and boxes")
    level_text = ("constructions, pulls and rewards seen by the recording learner class are compared round by round with the published "
                  "schedule N, L, rho grid, validation and final selection; the schedule table is exhaustive over the stated n range, the "
                  "rest is seeded exploration")
    assumptions = ["configurations with floor(n/2N) = 0 are excluded (recorded finding of C01)",
                   "PCT/VPCT are observed by substituting the recording class for the name HCT/VHCT in their module during construction"]
    fault_kinds = CheckC01.fault_kinds
    probe_names = ["c09-phases-started", "c09-validation-rounds", "c09-schedule-completed", "c09-post-schedule-pulls",
                   "c09-final-recommendation-judged"]

    @property
    def sizes(self):
        return {t: (hi - lo + 1) * len(RHOMAX_GRID) + self.extra[t] for t, (lo, hi) in self.table_n.items()}

    @property
    def rule(self):
        return ("run indices below (n_hi-n_lo+1)*%d enumerate the schedule table exhaustively: every budget n in the tier's range "
                "(quick 100..400, thorough 100..3000) x rho_max in %s, base learner cycling with n, full budget T=n, fixed reward program; "
                "of the remaining runs 35%% are schedule probes (budget n up to 200 000, half of them exact multiples of 2N, rho_max on a "
                "0.01 grid from 0.5 to 0.985, driven for 2L+2 rounds: N shows in the first learner's rho, L in the round of the second "
                "construction), the others a seeded swarm over partitions, boxes, parameters, reward programs and T; non-trivial = >= 10 "
                "rounds and >= 2 learners; distinct = (n, rho_max, learner, wrapper) for the table, the usual tuple otherwise" % (
                    len(RHOMAX_GRID), RHOMAX_GRID))

    def generate_indexed(self, i, r, seed, tier):
        lo, hi = self.table_n[tier]
        tab = (hi - lo + 1) * len(RHOMAX_GRID)
        if i < tab:
            n = lo + i // len(RHOMAX_GRID)
            rhomax = RHOMAX_GRID[i % len(RHOMAX_GRID)]
            j = (n + i) % 5
            base = ["T_HOO", "HCT", "VHCT"][(n + i % len(RHOMAX_GRID)) % 3]
            algo = "GPO"
            if j == 3 and base != "T_HOO":
                algo = "PCT" if base == "HCT" else "VPCT"
            sc = {"algo": algo, "params": {"numax": 1.0, "rhomax": rhomax, "rounds": n}, "partition": {"cls": "BinaryPartition"},
                  "domain": [[0.0, 1.0]], "budget": n, "rounds": n, "rewards": {"kind": "unit", "seed": 1},
                  "rng": {"mode": "scripted", "policy": {}, "seed": 1}, "schedule": [], "meta": {"table": True}}
            if algo == "GPO":
                sc["base"] = base
            return sc
        return self.generate(r, seed, tier)

    def schedule_probe(self, r, seed, tier):
        """Short run over the first phase boundary of a (large) budget: N is visible in the first learner's rho, L in the round
        at which the second learner is built and in the number of validation rounds of phase 1.  Budgets up to 200 000, rho_max on
        a fine grid; half of the budgets are exact multiples of 2N (where floor(n/2N) sits on an integer)."""
        from .oracles_tree import gpo_schedule
        rhomax = r.choice([round(0.5 + 0.01 * k, 2) for k in range(0, 49)] + [0.985, 0.3, 0.4, r.uniform(0.3, 0.985)])
        k = r.random()
        if k < 0.35:
            n = r.randint(100, 3000)
        elif k < 0.5:
            n = int(gen.loguniform(r, 3000, 200000))
        else:
            n = r.randint(100, 3000) if r.random() < 0.5 else int(gen.loguniform(r, 3000, 60000))
            for _ in range(4):
                N, L = gpo_schedule({"rounds": n, "rhomax": rhomax})
                m = max(1, round(n / (2 * N)))
                if 2 * N * m == n or 2 * N * m < 100:
                    break
                n = 2 * N * m
        N, L = gpo_schedule({"rounds": n, "rhomax": rhomax})
        if L == 0:
            rhomax, n = 0.9, 1000
            N, L = gpo_schedule({"rounds": n, "rhomax": rhomax})
        T = min(n, 2 * L + 2, 1500)
        algo = r.choice(["GPO", "GPO", "GPO", "PCT"])
        sc = {"algo": algo, "params": {"numax": 1.0, "rhomax": rhomax, "rounds": n}, "partition": {"cls": "BinaryPartition"},
              "domain": [[0.0, 1.0]], "budget": n, "rounds": T, "rewards": {"kind": "unit", "seed": seed},
              "rng": {"mode": "scripted", "policy": {}, "seed": seed}, "schedule": [], "meta": {"probe": True}}
        if algo == "GPO":
            sc["base"] = r.choice(["T_HOO", "T_HOO", "HCT"])
        return sc

    def generate(self, r, seed, tier):
        if r.random() < 0.35:
            return self.schedule_probe(r, seed, tier)
        algo = gen.weighted(r, [("GPO", 3), ("PCT", 1), ("VPCT", 1)])
        n = gen.gen_budget(r, 100, 600)
        sc = gen.base_scenario(r, seed, algo, n=n, ok_only=False, neighbour_prob=0.2, sched_prob=0.2, mid_prob=0.5)
        sc["params"]["rhomax"] = r.choice([r.uniform(0.05, 0.97), r.uniform(0.8, 0.97)])
        if derived(sc).get("gpo_L_zero"):
            sc["params"]["rhomax"] = 0.9
        if r.random() < 0.6:
            sc["rounds"] = n
        return sc

    def distinct_key(self, sc, res):
        if (sc.get("meta") or {}).get("table"):
            return ("table", sc["params"]["rounds"], sc["params"]["rhomax"], sc.get("base"), sc["algo"])
        return Check.distinct_key(self, sc, res)

    def nontrivial(self, sc, res):
        if (sc.get("meta") or {}).get("table"):
            return True
        return res.rounds >= 10 and res.probes.get("c09-phases-started", 0) >= 1

    def extra_coverage(self, agg):
        done = sum(1 for k in agg["keys"] if k and k[0] == "table")
        return {"schedule_table": {"rhomax_grid": RHOMAX_GRID, "table_cells_run": done,
                                   "note": "table cell = (budget n, rho_max); every n of the tier's range x every grid value; "
                                           "exhaustive over that table when table_cells_run equals (n_hi-n_lo+1)*len(grid)"}}


class CheckC10(Check):
    prop = "C10"
    design_ref = "DESIGN.md 5.10"
    oracles = (C10,)
    sizes = {"quick": 6000, "thorough": 60000}
    chunk = 25
    technique = ("deterministic simulation with recording base learners: routing / exactly-once ledger per learner, scores against true "
                 "means, rho grid membership, after every round")
    level_text = ("every POO round of seeded histories is checked for one-learner routing, reward delivery to the same learner, "
                  "append-only population on the rho grid, and score = mean / count = number of the learner's own rewards")
    rule = ("POO over T_HOO/HCT/VHCT x partitions x boxes x reward programs x rho_max in [0.84,0.985) x budgets up to 3000 (thorough); "
            "non-trivial = >= 10 rounds and >= 2 learners; distinct = (base, partition, K, d, reward kind, RNG policy, leaf-set hash of "
            "the first learner, number of learners)")
    assumptions = ["rho_max >= 0.84 (smaller values are the recorded finding F-POO-rhomax of C01)"]
    fault_kinds = CheckC01.fault_kinds
    probe_names = ["c10-second-creation-burst", "c10-round-robin-rounds", "c10-recommendations-judged"]

    def generate(self, r, seed, tier):
        n = gen.gen_budget(r, 100, 600) if tier == "quick" or r.random() < 0.7 else r.choice([1000, 1500, 3000])
        k = r.random()
        if k < 0.08:
            n = r.randint(4, 99)            # small declared budgets: the horizon binds inside the first creation phases
        elif k < 0.14 and tier == "quick":
            n = r.choice([1000, 1000, r.randint(700, 1700)])    # the constructor's default budget, carried to its end
        sc = gen.base_scenario(r, seed, "POO", n=n, ok_only=True, sched_prob=0.5, mid_prob=0.5, neighbour_prob=0.2)
        sc["params"]["rhomax"] = r.uniform(0.84, 0.985)
        if r.random() < 0.7:
            sc["rounds"] = n
        return sc

    def distinct_key(self, sc, res):
        return Check.distinct_key(self, sc, res) + (res.stats.get("learners", 0),)


class CheckC11(Check):
    prop = "C11"
    design_ref = "DESIGN.md 5.11"
    oracles = (Ledger, C11)
    judged = {"C11"}
    adopt = {("C04", None, "Zooming"): "arm-stats"}
    sizes = {"quick": 9000, "thorough": 400000}
    chunk = 40
    technique = ("deterministic simulation: coverage invariant over the leaves, index maximality and refinement rule checked after every "
                 "round; midpoint partitions (arm on the shared face) generated on purpose")
    level_text = ("after every round of seeded Zooming histories: every arm in its cell, every leaf covered by an active cell, played arm "
                  "maximises the published index, refinement exactly by the radius rule with new arms for the children that lose the arm")
    rule = ("Zooming x all partitions (midpoint ones weighted up) x boxes x nu, rho x reward programs; non-trivial = >= 10 rounds and >= 1 "
            "refinement; distinct = (partition, K, d, reward kind, RNG policy, leaf-set hash)")
    assumptions = ["the refinement test may see the phase before or after the round's phase update; radius within 1e-9 of the threshold accepts both"]
    fault_kinds = CheckC01.fault_kinds
    probe_names = ["c11-arm-on-shared-face", "c11-refinements-judged", "c11-radius-meets-threshold-exactly"]

    def generate(self, r, seed, tier):
        pool = gen.PARTS_ALL + gen.PARTS_MIDPOINT * 2
        sc = gen.base_scenario(r, seed, "Zooming", parts=pool, n=gen.gen_budget(r, 100, 400 if tier == "quick" else 1500),
                               sched_prob=0.25, mid_prob=0.5, neighbour_prob=0.3)
        k = r.random()
        if k < 0.4:
            sc["params"] = {"nu": gen.loguniform(r, 0.5, 20), "rho": r.uniform(0.5, 0.95)}
        elif k < 0.65:
            # dyadic parameters: the confidence radius meets nu*rho^depth exactly, not just approximately
            sc["params"] = {"nu": r.choice([0.5, 1.0, 1.0, 2.0, 4.0]), "rho": r.choice([0.5, 0.5, 0.25, 0.75])}
        elif k < 0.72:
            gen.zooming_deep(r, sc, seed)
        elif k < 0.80:
            # cells refined after a few pulls for hundreds of rounds: arms get refined a second and third time, end up on the
            # outer faces of their cells and on cuts that are not dyadic
            sc["params"] = {"nu": gen.loguniform(r, 2, 30), "rho": r.uniform(0.7, 0.97)}
            sc["rounds"] = r.choice([400, 600, 800]) if tier == "quick" else r.choice([600, 1200, 2000])
            sc["budget"] = max(sc["budget"], sc["rounds"])
        return sc

    def nontrivial(self, sc, res):
        return res.rounds >= 10 and res.stats.get("expansions", 0) >= 3


class CheckC13(Check):
    prop = "C13"
    design_ref = "DESIGN.md 5.13"
    oracles = (Ledger, C13)
    judged = {"C13"}
    # np.random.choice (the seam keeps NumPy's own validation) rejecting the weights VROOM hands it is this property's business:
    # the vector passed is not the distribution 1/(h*r*C)
    adopt = {("C04", "credit-set", "VROOM"): "credit-path", ("C04", "credit-value", "VROOM"): "credit-path",
             ("C01", "raise", "VROOM"): ("normalisation", "probabilities")}
    sizes = {"quick": 3000, "thorough": 30000}
    chunk = 4
    technique = ("deterministic simulation with the simulator owning np.random.choice/randint/uniform: the probability vector passed, the "
                 "outcome forced (least likely / first / last cell) and the designated cell are all observed")
    level_text = ("at every pull of seeded VROOM histories the ranks are checked to be a permutation ordered by the ledger's lower "
                  "confidence values, the probability vector to be 1/(h*r*C), and the returned point to lie in the designated cell")
    rule = ("VROOM with n <= 128 on binary-child partitions x boxes x depth caps below/at/above the ranking depth x reward programs x "
            "choice policies; non-trivial = >= 10 rounds; distinct = (partition, K, d, reward kind, RNG policy, h_max, leaf-set hash)")
    assumptions = ["binary-child partitions only (statement); budgets <= 128 because the tree of 2^floor(log2 n) cells is ranked at every pull, "
                   "except 2 (quick) / 32 (thorough) runs per batch with budgets 1030-1100 driven past round 1024"]
    fault_kinds = CheckC01.fault_kinds
    probe_names = ["c13-cells-below-ranking-depth", "c13-draw-below-depth-cap"]

    long_runs = {"quick": 2, "thorough": 32}

    def generate_indexed(self, i, r, seed, tier):
        if i % self.chunk == 0 and i // self.chunk < self.long_runs[tier]:
            return vroom_long(r, seed)
        return self.generate(r, seed, tier)

    def generate(self, r, seed, tier):
        sc = gen.base_scenario(r, seed, "VROOM", parts=gen.PARTS_BINARY_CHILD, real_prob=0.2, sched_prob=0.25, mid_prob=0.5,
                               neighbour_prob=0.3)
        sc["params"]["n"] = r.choice([16, 20, 32, 50, 64]) if r.random() < 0.5 else r.randint(16, 128 if tier == "thorough" else 70)
        n = sc["params"]["n"]
        sd = int(math.floor(math.log2(n)))
        sc["params"]["h_max"] = r.choice([1, 2, sd - 1, sd, sd + 1, sd + 3, 20, 100, 500])
        sc["rounds"] = r.choice([n, n, max(1, n // 2)])
        sc["budget"] = n
        return sc

    def nontrivial(self, sc, res):
        return res.rounds >= 10

    def distinct_key(self, sc, res):
        return Check.distinct_key(self, sc, res) + (sc["params"]["h_max"],)


# --------------------------------------------------------------------------- log-equality checks (twins)

def lift(shrinker):
    def f(sc):
        out = []
        for cand in shrinker(sc["A"]):
            c = copy.deepcopy(sc)
            c["A"] = cand
            if "variants" in c:
                T = cand["rounds"]
                for v in c["variants"]:
                    if "schedule" in v:
                        v["schedule"] = [x for x in v["schedule"] if x["after"] <= T]
            if "shift" in c and len(c["shift"]) != len(cand["domain"]):
                continue
            out.append(c)
        return out
    return f


def shrink_twin_extras(sc):
    out = []
    if sc.get("B") is not None:
        c = copy.deepcopy(sc)
        c["B"] = None
        out.append(c)
        for f in (shrink_rounds, shrink_params, shrink_partition):
            for cand in f(sc["B"])[:6]:
                c = copy.deepcopy(sc)
                c["B"] = cand
                out.append(c)
    for k in ("third_party", "alloc_noise"):
        if sc.get(k):
            c = copy.deepcopy(sc)
            c[k] = 0
            out.append(c)
    if sc.get("share_domain"):
        c = copy.deepcopy(sc)
        c["share_domain"] = False
        out.append(c)
    if len(sc.get("variants") or []) > 1:
        for k in range(len(sc["variants"])):
            c = copy.deepcopy(sc)
            c["variants"] = [sc["variants"][k]]
            out.append(c)
    for v_i, v in enumerate(sc.get("variants") or []):
        if "schedule" in v and len(v["schedule"]) > 1:
            for k in range(len(v["schedule"])):
                c = copy.deepcopy(sc)
                del c["variants"][v_i]["schedule"][k]
                out.append(c)
    return out


class TwinCheck(Check):
    components = dict(COMPONENTS, **{
        "Partition / node / learner classes": "real, unwrapped (these checks compare logs of returned points only)",
    })

    def distinct_key(self, sc, res):
        A = sc["A"]
        rng = A["rng"]
        return (sc["kind"], engine.algo_label(A), A["partition"]["cls"], A["partition"].get("K"), len(A["domain"]),
                A["rewards"].get("kind"), rng.get("mode"), res.digest[:12])

    def nontrivial(self, sc, res):
        return res.rounds >= 10

    def shrinkers(self):
        return [shrink_twin_extras, lift(shrink_rounds), lift(shrink_params), lift(shrink_domain), lift(shrink_partition)]


def _twin_base(r, seed, algo, **kw):
    pool = kw.pop("parts", None)
    if algo == "VROOM":
        pool = gen.PARTS_BINARY_CHILD
    sc = gen.base_scenario(r, seed, algo, parts=pool, ok_only=True, cap_mode=kw.pop("cap_mode", "big"), **kw)
    if algo in ("GPO", "PCT", "VPCT") and derived(sc).get("gpo_L_zero"):
        sc["params"]["rhomax"] = 0.9
    if algo == "POO":
        sc["params"]["rhomax"] = max(sc["params"]["rhomax"], 0.84)
    if algo == "VROOM":
        sc["params"]["n"] = r.choice([16, 32, 50, 64])
        sc["rounds"] = min(sc["rounds"], sc["params"]["n"])
    sc["rewards"].pop("opt", None)
    if sc["rewards"]["kind"] in ("obj", "objneg", "edge"):
        sc["rewards"]["kind"] = "gauss"     # rewards are a function of the round index only
    return sc


class CheckC14(TwinCheck):
    prop = "C14"
    design_ref = "DESIGN.md 5.14"
    sizes = {"quick": 3000, "thorough": 60000}
    fresh = {"quick": 300, "thorough": 3000}
    chunk = 20
    technique = ("deterministic simulation: the same scenario replayed in-process, under allocation noise and a jumping clock with "
                 "tripwires on foreign randomness, in fresh interpreters under other PYTHONHASHSEED values, and two instances interleaved "
                 "call by call by a seeded scheduler (optionally sharing the domain object; on random partitions with the global generator "
                 "context-switched per instance); event-log equality against solo runs taken in pristine processes")
    level_text = ("log equality between repeated, perturbed and interleaved executions of seeded scenarios; the interleaving of two "
                  "instances is decided by the simulator's scheduler, hash seed / allocation / clock are varied deliberately")
    rule = ("A = any algorithm (real NumPy seed in 70% of runs) x partition x box x rewards; B = second instance: on an RNG-free partition "
            "when A is RNG-free too (shared generator, both compared), or a consuming one next to an RNG-free A (shared generator, A "
            "compared), or any instance at all with one virtual generator per instance (random partitions, VROOM); non-trivial = >= 10 "
            "rounds; distinct = (algorithm, partition, K, d, reward kind, RNG mode, log digest)")
    assumptions = ["over one shared generator the interleaving part runs on RNG-outcome-free configurations (DimensionBinary; Binary/K-ary in 1-D; "
                   "not VROOM); elsewhere each instance gets its own generator (context switch at every scheduler step), because two instances "
                   "that both draw from NumPy's global generator necessarily see each other's consumption",
                   "tripwires cover random.*, time.*, os.urandom, uuid, numpy.random.{default_rng,RandomState,rand,randn,random,normal,...}"]
    fault_kinds = ["alloc-noise", "clock-jump", "hashseed", "interleaving", "shared-domain-object", "third-party-instance",
                   "generator-context-switch"]
    probe_names = ["c14-shared-domain-object"]

    def generate(self, r, seed, tier):
        algo = r.choice(gen.ALGOS_ALL)
        n = r.choice([100, 128, 200])
        # SOO / StoSOO also with depth caps that bind (pull then returns no point; the logs must still agree)
        A = _twin_base(r, seed, algo, n=n, real_prob=0.7, sched_prob=0.3 if algo in ("T_HOO", "HCT", "VHCT", "Zooming", "POO") else 0.0,
                       cap_mode="any" if algo in ("SOO", "StoSOO") and r.random() < 0.35 else "big")
        A["rounds"] = min(A["rounds"], 200)
        if r.random() < 0.45 and algo != "VROOM":
            # bias towards RNG-free partitions so that the interleaving part runs often
            A["partition"] = {"cls": "DimensionBinaryPartition"} if len(A["domain"]) > 1 else dict(r.choice(
                [{"cls": "BinaryPartition"}, {"cls": "DimensionBinaryPartition"}, {"cls": "KaryPartition", "K": 3}]))
        sc = {"kind": "c14", "A": A, "B": None, "sched_seed": seed, "share_domain": False, "third_party": 0,
              "alloc_noise": r.choice([0, 1, 3])}
        d = len(A["domain"])
        free = A["partition"]["cls"] == "DimensionBinaryPartition" or (d == 1 and A["partition"]["cls"] in ("BinaryPartition", "KaryPartition"))
        if free and algo != "VROOM" and r.random() < 0.3:
            # A on an RNG-free configuration next to a B that draws from the shared global generator all the time (random
            # partition, VROOM): A's sequence must not depend on how much of the stream its neighbour uses up - it would if A
            # itself started to draw.  Only A is compared (B's draws are B's business here).
            balgo = r.choice(gen.ALGOS_ALL)
            pool = gen.PARTS_BINARY_CHILD if balgo == "VROOM" else [{"cls": "RandomBinaryPartition"}, {"cls": "RandomKaryPartition", "K": 3},
                                                                 {"cls": "RandomKaryPartition", "K": 2}]
            B = _twin_base(r, seed + 1, balgo, n=r.choice([100, 128]), parts=pool, real_prob=1.0)
            B["rng"] = A["rng"]
            B["rounds"] = min(B["rounds"], 150)
            sc["B"] = B
            sc["compare_B"] = False
            sc["third_party"] = r.choice([0, 0, 1])
        elif free and algo != "VROOM" and r.random() < 0.8:
            # half of the time the second instance is of the same class with other parameters: state shared
            # between instances of one class (class attributes, caches keyed too coarsely) shows exactly then
            balgo = algo if r.random() < 0.5 else r.choice([a for a in gen.ALGOS_ALL if a != "VROOM"])
            pool = [{"cls": "DimensionBinaryPartition"}] if d > 1 else \
                [{"cls": "BinaryPartition"}, {"cls": "DimensionBinaryPartition"}, {"cls": "KaryPartition", "K": 3}, {"cls": "KaryPartition", "K": 2}]
            B = _twin_base(r, seed + 1, balgo, n=r.choice([100, 128]), parts=pool, real_prob=1.0)
            B["rng"] = A["rng"]
            B["domain"] = copy.deepcopy(A["domain"])
            B["rounds"] = min(B["rounds"], 150)
            sc["B"] = B
            sc["share_domain"] = r.random() < 0.5
            sc["third_party"] = r.choice([0, 0, 1])
        elif r.random() < 0.7:
            # random partitions and VROOM: each instance gets its own (virtual) generator, see twins.run_c14
            balgo = algo if r.random() < 0.5 else r.choice(gen.ALGOS_ALL)
            B = _twin_base(r, seed + 1, balgo, n=r.choice([100, 128]), real_prob=0.7, dmax=d)
            if len(B["domain"]) == d and r.random() < 0.6:
                B["domain"] = copy.deepcopy(A["domain"])
            if r.random() < 0.5 and balgo != "VROOM" and algo != "VROOM":
                B["partition"] = dict(A["partition"])
            B["rounds"] = min(B["rounds"], 150)
            sc["B"] = B
            sc["virtual_rng"] = True
            sc["share_domain"] = B["domain"] == A["domain"] and r.random() < 0.5
            sc["third_party"] = r.choice([0, 0, 1])
        return sc

    @staticmethod
    def _rng_free(S):
        d = len(S["domain"])
        return S["algo"] != "VROOM" and (S["partition"]["cls"] == "DimensionBinaryPartition" or (
            d == 1 and S["partition"]["cls"] in ("BinaryPartition", "KaryPartition")))

    def legal(self, sc):
        """The interleaving part over one shared generator is only defined for RNG-free instances (a shrinker may have changed
        a partition or a dimension): both of them, or - next to a consuming neighbour - the one that is compared."""
        B = sc.get("B")
        if B is None or sc.get("virtual_rng"):
            return True
        if not self._rng_free(sc["A"]):
            return False
        return sc.get("compare_B", True) is False or self._rng_free(B)

    record_all_digests = 3000
    # the generic digest self-test is this property itself here: repeats happen inside every run and the
    # fresh-interpreter comparison is post_batch(), where a difference is a verdict, not a harness fault
    selftest = {"quick": 0, "thorough": 0}

    def run(self, sc):
        from .twins import run_c14, run_c14_hashseed
        if (sc.get("env") or {}).get("hashseed") is not None:
            return run_c14_hashseed(sc)
        return run_c14(sc)

    def post_batch(self, tier, seed, agg):
        """Fresh interpreters under other PYTHONHASHSEED values must produce the same logs."""
        import os
        from concurrent.futures import ThreadPoolExecutor
        from . import runner
        if os.environ.get("VERIF_NO_FRESH"):
            return []
        idx = sorted(i for i in agg["digests"] if i < self.fresh[tier])
        if not idx:
            return []
        seeds = ["1", "4242", "random"]
        out = []
        with ThreadPoolExecutor(max_workers=3) as ex:
            results = list(ex.map(lambda hs: runner.selftest_fresh(self.prop, tier, seed, idx, hs), seeds))
        agg["stats"]["fresh-interpreter-runs"] += len(idx) * len(seeds)
        agg["fired"]["hashseed"] += len(idx) * len(seeds)
        for hs, fresh in zip(seeds, results):
            for i in idx:
                if fresh.get(i) != agg["digests"][i]:
                    sc, res = runner.run_index(self.prop, tier, seed, i)
                    sc2 = copy.deepcopy(sc)
                    sc2["env"] = {"hashseed": hs}
                    sc2["B"] = None
                    info = {"property": "C14", "clause": "hashseed-differs", "algo": engine.algo_label(sc["A"]), "site": None,
                            "detail": "log under PYTHONHASHSEED=%s differs from the log under PYTHONHASHSEED=0" % hs, "round": res.rounds}
                    info["signature"] = engine.signature(info)
                    out.append({"i": i, "info": info, "scenario": sc2, "explicit": sc2})
        return out


class CheckC15(TwinCheck):
    prop = "C15"
    design_ref = "DESIGN.md 5.15"
    sizes = {"quick": 5000, "thorough": 100000}
    chunk = 25
    technique = ("deterministic simulation: twin runs of one seeded scenario that differ only in the time labels passed (0-based, offset, "
                 "gapped) or in get_last_point calls interjected by the scheduler; event-log equality")
    level_text = ("for every seeded scenario the sequence of pulled points and the recommendation are compared between label conventions "
                  "and between runs with and without scheduler-chosen recommendation queries")
    rule = ("T_HOO/HCT/VHCT/Zooming/POO/GPO/PCT/VPCT/DOO/SOO/SequOOL/VROOM x partitions x boxes x rewards x RNG modes; label variants zero / "
            "offset (17, 2, negative, 1e9, 2^31, 2^40; typed int, np.int64 or float) / seeded gaps (also from a negative or a large start); query variants (first five algorithms) 1..5 queries in a row at scheduler-chosen rounds; non-trivial = "
            ">= 10 rounds; distinct = (algorithm, partition, K, d, reward kind, RNG mode, log digest)")
    assumptions = ["StoSOO and StroquOOL read the label and are excluded by the statement"]
    fault_kinds = ["label-skew:zero", "label-skew:offset", "label-skew:gaps", "interject-query"]
    QUERY_OK = ("T_HOO", "HCT", "VHCT", "Zooming", "POO")

    def generate(self, r, seed, tier):
        algo = r.choice(["T_HOO", "HCT", "VHCT", "Zooming", "POO", "GPO", "PCT", "VPCT", "DOO", "SOO", "SequOOL", "VROOM"])
        A = _twin_base(r, seed, algo, n=r.choice([100, 128, 200, 300]))
        A["rounds"] = min(A["rounds"], 300)
        T = A["rounds"]
        variants = [{"labels": {"scheme": "zero"}},
                    {"labels": {"scheme": "offset", "offset": r.choice([17, 17, 2, -5, -1000, 10 ** 9, 2 ** 31, 2 ** 40]),
                                "type": r.choice(["int", "int", "np", "float"])}},
                    {"labels": {"scheme": "gaps", "seed": seed, "start": r.choice([0, 1, 3, 5, -7, 100000]), "maxgap": r.choice([2, 5, 1000])}}]
        r.shuffle(variants)
        variants = variants[: r.randint(1, 3)]
        if algo in self.QUERY_OK:
            sch = [{"after": r.randint(1, T), "times": r.randint(1, 5)} for _ in range(r.randint(1, 8))]
            variants.append({"schedule": sch})
        return {"kind": "c15", "A": A, "variants": variants}

    def run(self, sc):
        from .twins import run_c15
        return run_c15(sc)


class CheckC16(TwinCheck):
    prop = "C16"
    design_ref = "DESIGN.md 5.16"
    sizes = {"quick": 10000, "thorough": 300000}
    chunk = 25
    technique = ("deterministic simulation: lock-step twin runs on a box and on its affine image under one scripted RNG stream owned by the "
                 "simulator; mapped event-log equality (bit-exact class / 1e-9 tolerance class)")
    level_text = ("metamorphic twin runs under a shared scripted stream of unit draws: power-of-two scalings and dyadic translations are "
                  "compared bit for bit, arbitrary affine maps to 1e-9 of the box scale")
    rule = ("all algorithms x partitions x scripted RNG policies x rewards (function of the round index); exact class: scale 2^k (|k|<=20), "
            "or dyadic shift of a dyadic box under midpoint partitions (falls to tolerance at the first coordinate whose image is not "
            "exactly representable); tolerance class: arbitrary scale and shift, not for Zooming / default-delta DOO; non-trivial = >= 10 "
            "rounds; distinct = (algorithm, partition, K, d, reward kind, map class, log digest)")
    assumptions = ["DOO with its default delta is tested for translation only (documented exception)",
                   "Zooming and default-delta DOO compare coordinates and are judged in the exact class only"]
    fault_kinds = CheckC01.fault_kinds

    def generate(self, r, seed, tier):
        # the two algorithms that compare coordinates get extra weight
        algo = r.choice(gen.ALGOS_ALL + ["Zooming", "Zooming", "Zooming", "DOO"])
        mode = r.choice(["scale2", "scale2", "shift-dyadic", "tol"])
        coord_sensitive = algo == "Zooming"
        parts = None
        if mode == "shift-dyadic":
            parts = gen.PARTS_MIDPOINT
        A = _twin_base(r, seed, algo, n=r.choice([100, 128, 200]), real_prob=0.0, parts=parts)
        if algo == "VROOM" and mode == "shift-dyadic":
            A["partition"] = r.choice([{"cls": "BinaryPartition"}, {"cls": "KaryPartition", "K": 2}])
        A["rounds"] = min(A["rounds"], 200)
        # nextafter() at an end point does not commute with an affine map (it is the simulator's shaping, not PyXAB's)
        A["rng"]["policy"]["endpoint_tags"] = ["lo", "hi"]
        doo_default = algo == "DOO" and (A["params"].get("delta") is None)
        d = len(A["domain"])
        zoom_tol = False
        if coord_sensitive and mode == "tol" and r.random() < 0.6:
            # Zooming under an arbitrary affine map, on midpoint partitions only: there every comparison it makes between
            # an arm and a cell bound is either between bit-identical numbers (the arm *is* the split point, computed by the
            # same expression) or has a margin of half a cell width, so rounding cannot flip it while cells are much wider
            # than an ulp (judged up to depth 40)
            zoom_tol = True
            # Binary and DimensionBinary only: K-ary cuts come from np.linspace (lo + i*step), the arm from (lo+hi)/2 - two
            # expressions that may differ in the last bit on non-dyadic boxes, so there the tie is not position-independent
            if A["partition"]["cls"] not in ("BinaryPartition", "DimensionBinaryPartition"):
                A["partition"] = dict(r.choice([{"cls": "BinaryPartition"}, {"cls": "DimensionBinaryPartition"}]))
            if r.random() < 0.6:
                A["params"] = {"nu": gen.loguniform(r, 1, 20), "rho": r.uniform(0.4, 0.95)}
        elif (coord_sensitive or doo_default) and mode == "tol":
            mode = "shift-dyadic" if doo_default else r.choice(["scale2", "shift-dyadic"])
            if mode == "shift-dyadic" and A["partition"] not in gen.PARTS_MIDPOINT:
                A["partition"] = dict(r.choice(gen.PARTS_MIDPOINT))
        if doo_default and mode == "scale2":
            mode = "shift-dyadic"
            if A["partition"] not in gen.PARTS_MIDPOINT:
                A["partition"] = dict(r.choice(gen.PARTS_MIDPOINT))
        if mode == "scale2":
            sc = {"scale": 2.0 ** r.choice([r.randint(-20, 20), r.randint(-30, -15), r.randint(15, 30)]), "shift": [0.0] * d, "cls": "exact"}
        elif mode == "shift-dyadic":
            A["domain"] = [[lo, lo + 2.0 ** r.randint(-2, 3)] for lo in [r.randint(-16, 16) / 4.0 for _ in range(d)]]
            A["rng"]["policy"]["dyadic"] = r.choice([2, 4])
            A["rng"]["policy"]["endpoint"] = 0.0
            big = 2.0 ** r.choice([0, 0, 4, 10, 16, 20])
            sc = {"scale": 1.0, "shift": [big * r.randint(-64, 64) / 4.0 for _ in range(d)], "cls": "exact"}
        else:
            sc = {"scale": gen.loguniform(r, 1e-3, 1e3) if r.random() < 0.7 else 1.0,
                  "shift": [r.uniform(-100, 100) * r.choice([1, 1, 1e3, 1e5]) if r.random() < 0.8 else 0.0 for _ in range(d)], "cls": "tol"}
        sc["kind"] = "c16"
        sc["A"] = A
        sc["mode"] = mode
        sc["coord_sensitive"] = bool(coord_sensitive or doo_default)
        if zoom_tol:
            sc["depth_guard"] = 40
        return sc

    def legal(self, sc):
        """Shrunk twin scenarios must stay inside the statement: default-delta DOO is exempt from scaling, and the two
        coordinate-comparing algorithms are judged under inexact maps only in the Zooming tolerance family."""
        A = sc["A"]
        doo_default = A["algo"] == "DOO" and (A.get("params") or {}).get("delta") is None
        if doo_default and sc.get("scale", 1.0) != 1.0:
            return False
        if (doo_default or A["algo"] == "Zooming") and sc.get("cls") == "tol":
            return (A["algo"] == "Zooming" and sc.get("depth_guard") is not None
                    and A["partition"]["cls"] in ("BinaryPartition", "DimensionBinaryPartition"))
        if len(sc.get("shift") or []) != len(A["domain"]):
            return False
        return True

    def distinct_key(self, sc, res):
        return TwinCheck.distinct_key(self, sc, res) + (sc.get("mode"),)

    def run(self, sc):
        from .twins import run_c16
        return run_c16(sc)


CHECKS = {}


def register(c):
    CHECKS[c.prop] = c()


for _c_ in (CheckC01, CheckC02, CheckC03, CheckC04, CheckC05, CheckC06, CheckC07, CheckC08, CheckC09, CheckC10, CheckC11,
            CheckC12, CheckC13, CheckC14, CheckC15, CheckC16):
    register(_c_)
