"""Simulator core: seeds, RNG seam, recording partition / node / learner classes,
step-count watchdog, shadow tree, event log and the ask/tell driver.

Everything that is random in a run is derived from the scenario (a JSON object);
this module never reads a clock and never draws from a PRNG on a logging path.
"""
import os
import sys
import math
import copy
import json
import hashlib
import functools
import random as _pyrandom
import collections

# --------------------------------------------------------------------------- repo import

REPO = os.environ.get("VERIF_REPO", "/repo")
if sys.path[0] != REPO:
    sys.path.insert(0, REPO)

import numpy as np  # noqa: E402
import PyXAB  # noqa: E402

_pyxab_dir = os.path.dirname(os.path.abspath(PyXAB.__file__))
if not _pyxab_dir.startswith(os.path.abspath(REPO) + os.sep):
    raise RuntimeError("HARNESS-ERROR: PyXAB imported from %s, not from %s" % (_pyxab_dir, REPO))

from PyXAB.algos.HOO import T_HOO  # noqa: E402
from PyXAB.algos.HCT import HCT  # noqa: E402
from PyXAB.algos.VHCT import VHCT  # noqa: E402
from PyXAB.algos.POO import POO  # noqa: E402
from PyXAB.algos.GPO import GPO  # noqa: E402
from PyXAB.algos.PCT import PCT  # noqa: E402
from PyXAB.algos.VPCT import VPCT  # noqa: E402
from PyXAB.algos.DOO import DOO  # noqa: E402
from PyXAB.algos.SOO import SOO  # noqa: E402
from PyXAB.algos.StoSOO import StoSOO  # noqa: E402
from PyXAB.algos.SequOOL import SequOOL  # noqa: E402
from PyXAB.algos.StroquOOL import StroquOOL  # noqa: E402
from PyXAB.algos.VROOM import VROOM  # noqa: E402
from PyXAB.algos.Zooming import Zooming  # noqa: E402
from PyXAB.partition.BinaryPartition import BinaryPartition  # noqa: E402
from PyXAB.partition.RandomBinaryPartition import RandomBinaryPartition  # noqa: E402
from PyXAB.partition.DimensionBinaryPartition import DimensionBinaryPartition  # noqa: E402
from PyXAB.partition.KaryPartition import KaryPartition  # noqa: E402
from PyXAB.partition.RandomKaryPartition import RandomKaryPartition  # noqa: E402
import PyXAB.algos.PCT as _PCT_mod  # noqa: E402
import PyXAB.algos.VPCT as _VPCT_mod  # noqa: E402

PARTITION_CLASSES = {
    "BinaryPartition": BinaryPartition,
    "RandomBinaryPartition": RandomBinaryPartition,
    "DimensionBinaryPartition": DimensionBinaryPartition,
    "KaryPartition": KaryPartition,
    "RandomKaryPartition": RandomKaryPartition,
}
BASE_LEARNERS = {"T_HOO": T_HOO, "HCT": HCT, "VHCT": VHCT}
ALGO_CLASSES = {
    "T_HOO": T_HOO, "HCT": HCT, "VHCT": VHCT, "POO": POO, "GPO": GPO, "PCT": PCT, "VPCT": VPCT,
    "DOO": DOO, "SOO": SOO, "StoSOO": StoSOO, "SequOOL": SequOOL, "StroquOOL": StroquOOL,
    "VROOM": VROOM, "Zooming": Zooming,
}


# --------------------------------------------------------------------------- seeds

def H(*parts):
    """64-bit integer derived from the arguments (stable across processes and hash seeds)."""
    h = hashlib.sha256(repr(parts).encode()).digest()
    return int.from_bytes(h[:8], "big")


def stream(seed, name):
    return _pyrandom.Random(H(seed, name))


# --------------------------------------------------------------------------- errors

class Violation(Exception):
    def __init__(self, prop, clause, detail="", site=None):
        super().__init__("%s/%s %s" % (prop, clause, detail))
        self.prop = prop
        self.clause = clause
        self.detail = detail
        self.site = site


class SimHang(BaseException):
    """Raised inside PyXAB code by the step-count watchdog."""


class HarnessError(Exception):
    pass


class StopRun(Exception):
    """Raised by an oracle to end the judged part of a run quietly (e.g. the run left
    the provisos of the property under judgement)."""


def pyxab_site(tb):
    """file:function of the innermost PyXAB frame of a traceback (never a line number)."""
    site = None
    while tb is not None:
        fn = tb.tb_frame.f_code.co_filename
        if fn.startswith(_pyxab_dir):
            site = "%s:%s" % (os.path.basename(fn), tb.tb_frame.f_code.co_name)
        tb = tb.tb_next
    return site


# --------------------------------------------------------------------------- float helpers

def fhex(x):
    try:
        return float(x).hex()
    except Exception:
        return repr(x)


def close(a, b, rt=1e-9, scale=1.0):
    if a == b:
        return True
    if math.isinf(a) or math.isinf(b) or math.isnan(a) or math.isnan(b):
        return False
    return abs(a - b) <= rt * max(1.0, abs(a), abs(b), scale)


def ge_tol(a, b, rt=1e-9, scale=1.0):
    """a >= b up to tolerance."""
    if a >= b:
        return True
    return close(a, b, rt, scale)


def ceil_set(v, rt=1e-9):
    """Admissible values of ceil(v) when v is within tolerance of an integer."""
    if math.isinf(v) or math.isnan(v):
        return {v}
    out = {float(math.ceil(v))}
    r = round(v)
    if abs(v - r) <= rt * max(1.0, abs(v)):
        out |= {float(r), float(r + 1)}
    return out


def ulp(x):
    return math.ulp(x) if x != 0 else math.ulp(1.0) * 0.0 + 5e-324


# --------------------------------------------------------------------------- RNG seam

_NP_NAMES = ("randint", "uniform", "choice", "seed", "random", "random_sample", "rand")


def shape_randint(tok, lo, hi):
    n = hi - lo
    if n <= 0:
        raise ValueError("low >= high")
    if tok == "last":
        return hi - 1
    if tok == "first" or isinstance(tok, str):
        return lo
    return lo + min(int(tok * n), n - 1)


def shape_uniform(tok, lo, hi):
    lo = float(lo)
    hi = float(hi)
    if tok == "lo":
        return lo
    if tok == "hi":
        return hi
    if tok == "lo+":
        return math.nextafter(lo, hi)
    if tok == "hi-":
        return math.nextafter(hi, lo)
    if isinstance(tok, str):
        tok = 0.5
    v = lo + (hi - lo) * tok
    # only legal outcomes of numpy.random.uniform: lo + fl(hi - lo) can exceed hi by an ulp (e.g. [-3.1, 5.7]); NumPy documents
    # values in [low, high) with high possibly included through rounding, never beyond
    if lo <= hi:
        v = min(max(v, lo), hi)
    return v


def shape_choice(tok, n, p):
    if p is None:
        p = [1.0 / n] * n
    if tok == "first":
        for i in range(n):
            if p[i] > 0:
                return i
    if tok == "last":
        for i in range(n - 1, -1, -1):
            if p[i] > 0:
                return i
    if tok == "minp":
        best = None
        for i in range(n):
            if p[i] > 0 and (best is None or p[i] < p[best]):
                best = i
        return best
    if tok == "maxp":
        best = 0
        for i in range(n):
            if p[i] > p[best]:
                best = i
        return best
    if isinstance(tok, str):
        tok = 0.5
    c = 0.0
    last = 0
    for i in range(n):
        if p[i] > 0:
            last = i
        c += p[i]
        if tok < c:
            return i
    return last


class Seam:
    """Owns numpy.random.{randint,uniform,choice,seed} for the duration of a run.

    spec: {"mode":"real","np_seed":s} | {"mode":"scripted","policy":{...},"seed":s}
          | {"mode":"explicit","tokens":[...]}
    In scripted and explicit mode every call consumes exactly one token (a unit draw
    u in [0,1) or a tag) and the consumed tokens are recorded, so that the explicit form
    of any run is available for replay and minimisation.
    """

    def __init__(self, spec):
        self.spec = spec
        self.mode = spec["mode"]
        self.tokens = []
        self.fired = collections.Counter()
        self.sites = collections.Counter()
        self.last_choice = None
        self.calls = 0
        self.exhausted = 0
        self.installed = False
        self.listeners = []
        if self.mode == "scripted":
            self.r = _pyrandom.Random(H(spec.get("seed", 0), "draws"))
            self.policy = dict(spec.get("policy") or {})
            self._sticky = None
            self._alt = 0
        elif self.mode == "explicit":
            self.src = list(spec.get("tokens") or [])
            self.pos = 0

    # -- token production
    def _u(self):
        m = self.policy.get("dyadic")
        if m:
            return self.r.randrange(1 << m) / float(1 << m)
        return self.r.random()

    def _next(self, kind):
        if self.mode == "explicit":
            if self.pos < len(self.src):
                tok = self.src[self.pos]
                self.pos += 1
                if isinstance(tok, (int, float)) and not (0.0 <= tok < 1.0):
                    tok = min(max(float(tok), 0.0), math.nextafter(1.0, 0.0))   # a unit draw is in [0, 1)
            else:
                tok = 0.5
                self.exhausted += 1
            self.tokens.append(tok)
            return tok
        pol = self.policy
        if kind == "randint":
            p = pol.get("randint", "iid")
            if p == "const0":
                tok = "first"
            elif p == "constmax":
                tok = "last"
            elif p == "alternate":
                self._alt ^= 1
                tok = "first" if self._alt else "last"
            elif p == "sticky":
                if self._sticky is None or self._sticky[1] <= 0:
                    self._sticky = [self._u(), self.r.randint(3, 40)]
                self._sticky[1] -= 1
                tok = self._sticky[0]
            else:
                tok = self._u()
        elif kind == "uniform":
            ep = pol.get("endpoint", 0.0)
            if ep and self.r.random() < ep:
                tok = self.r.choice(pol.get("endpoint_tags") or ["lo", "lo+", "hi-", "hi"])
            else:
                tok = self._u()
        else:
            p = pol.get("choice", "iid")
            if p == "mix":
                p = self.r.choice(["iid", "iid", "minp", "first", "last", "maxp"])
            tok = self._u() if p == "iid" else p
        if isinstance(tok, str):
            self.fired["rng:" + kind + ":" + tok] += 1
        self.tokens.append(tok)
        return tok

    def _site(self, depth=2):
        f = sys._getframe(depth)
        return "%s:%s" % (os.path.basename(f.f_code.co_filename), f.f_code.co_name)

    # -- replacements
    def _randint(self, low, high=None, size=None, dtype=int):
        if high is None:
            low, high = 0, low
        self.calls += 1
        self.sites[self._site()] += 1
        if size is not None:
            raise HarnessError("seam: randint with size is not modelled")
        if self.mode == "real":
            v = int(self._orig["randint"](low, high))
            self.tokens.append(["randint", v])
        else:
            v = shape_randint(self._next("randint"), int(low), int(high))
        for cb in self.listeners:
            cb("randint", (low, high), v)
        return v

    def _uniform(self, low=0.0, high=1.0, size=None):
        self.calls += 1
        self.sites[self._site()] += 1
        if size is not None:
            raise HarnessError("seam: uniform with size is not modelled")
        if self.mode == "real":
            v = float(self._orig["uniform"](low, high))
            self.tokens.append(["uniform", v])
        else:
            tok = self._next("uniform")
            v = shape_uniform(tok, low, high)
        if v == float(low) or v == float(high):
            self.fired["uniform-returned-endpoint"] += 1
        for cb in self.listeners:
            cb("uniform", (low, high), v)
        return v

    def _choice(self, a, size=None, replace=True, p=None):
        self.calls += 1
        self.sites[self._site()] += 1
        if size is not None:
            raise HarnessError("seam: choice with size is not modelled")
        if isinstance(a, (int, np.integer)):
            arr = list(range(int(a)))
        else:
            arr = list(a)
        plist = None if p is None else [float(x) for x in p]
        if self.mode == "real":
            idx = int(self._orig["choice"](len(arr), p=p))
            self.tokens.append(["choice", idx])
        else:
            if plist is not None:
                s = math.fsum(plist)
                # numpy's own validation, kept so that a wrong normaliser still surfaces
                if any(x < 0 for x in plist) or abs(s - 1.0) > 1.4901161193847656e-08:
                    raise ValueError("probabilities do not sum to 1")
            idx = shape_choice(self._next("choice"), len(arr), plist)
        self.last_choice = {"p": plist, "index": idx, "n": len(arr)}
        for cb in self.listeners:
            cb("choice", (len(arr), plist), idx)
        v = arr[idx]
        return np.int64(v) if isinstance(v, int) else v

    def _unit(self):
        """One draw from [0, 1) for np.random.random / random_sample / rand (not used by the pinned tree; owned so that code
        which moves to them still meets the scripted policies: 0.0 and the float just below 1 are legal outcomes)."""
        tok = self._next("uniform")
        if tok == "lo":
            return 0.0
        if tok == "lo+":
            return 5e-324
        if tok in ("hi", "hi-"):
            return math.nextafter(1.0, 0.0)
        if isinstance(tok, str):
            return 0.5
        return float(tok)

    def _random(self, size=None):
        self.calls += 1
        self.sites[self._site()] += 1
        if self.mode == "real":
            v = self._orig["random"](size)
            self.tokens.append(["random", size if size is None or isinstance(size, int) else list(size)])
            return v
        if size is None:
            return self._unit()
        shape = (int(size),) if isinstance(size, (int, np.integer)) else tuple(int(x) for x in size)
        n = 1
        for x in shape:
            n *= x
        return np.array([self._unit() for _ in range(n)], dtype=float).reshape(shape)

    def _rand(self, *dims):
        if self.mode == "real":
            self.calls += 1
            self.sites[self._site()] += 1
            self.tokens.append(["rand", list(dims)])
            return self._orig["rand"](*dims)
        return self._random(dims if dims else None)

    def _seed(self, s=None):
        if self.mode == "real":
            self._orig["seed"](s)
        self.fired["np.random.seed-called"] += 1

    def install(self):
        self._orig = {n: getattr(np.random, n) for n in _NP_NAMES}
        np.random.randint = self._randint
        np.random.uniform = self._uniform
        np.random.choice = self._choice
        np.random.seed = self._seed
        np.random.random = self._random
        np.random.random_sample = self._random
        np.random.rand = self._rand
        # the real global generator is always put into a state that depends on the scenario only, so that
        # np.random functions the seam does not own (rand, normal, ...) are reproducible too
        if self.mode == "real":
            self._orig["seed"](self.spec.get("np_seed", 0))
        else:
            self._orig["seed"](H(self.spec.get("seed", 0), "np-global") % (2 ** 32))
        self.installed = True

    def uninstall(self):
        if self.installed:
            for n, f in self._orig.items():
                setattr(np.random, n, f)
            self.installed = False

    def explicit_spec(self):
        if self.mode == "real":
            return dict(self.spec)
        return {"mode": "explicit", "tokens": list(self.tokens)}


# --------------------------------------------------------------------------- watchdog

class Watchdog:
    """Counts Python function entries (and backward jumps) inside PyXAB code while an
    API call is in progress; exceeding the budget raises SimHang inside the call."""

    A = 20000
    B = 2000
    _inst = None

    def __init__(self):
        self.n = 0
        self.lim = 1 << 62
        self.cells = lambda: 0
        self.enabled = False
        self.mon = getattr(sys, "monitoring", None)
        self.max_seen = 0

    @classmethod
    def get(cls):
        if cls._inst is None:
            cls._inst = Watchdog()
            cls._inst._setup()
        return cls._inst

    def _codes(self):
        import types
        out = set()
        mods = [m for name, m in list(sys.modules.items()) if name.startswith("PyXAB.") and m is not None]
        for m in mods:
            for obj in list(vars(m).values()):
                if isinstance(obj, types.FunctionType) and obj.__code__.co_filename.startswith(_pyxab_dir):
                    out.add(obj.__code__)
                elif isinstance(obj, type):
                    for v in list(vars(obj).values()):
                        f = getattr(v, "__func__", v)
                        if isinstance(f, types.FunctionType) and f.__code__.co_filename.startswith(_pyxab_dir):
                            out.add(f.__code__)
        # nested code objects (inner functions / lambdas)
        work = list(out)
        while work:
            c = work.pop()
            for k in c.co_consts:
                if hasattr(k, "co_code") and k not in out:
                    out.add(k)
                    work.append(k)
        return out

    def _setup(self):
        mon = self.mon
        if mon is None:
            return
        self.tool = mon.PROFILER_ID
        try:
            mon.use_tool_id(self.tool, "pyxab-sim-watchdog")
        except ValueError:
            pass
        ev = mon.events
        mon.register_callback(self.tool, ev.PY_START, self._cb)
        mon.register_callback(self.tool, ev.JUMP, self._cb3)
        for code in self._codes():
            mon.set_local_events(self.tool, code, ev.PY_START | ev.JUMP)
        self.enabled = True

    def _tick(self):
        self.n += 1
        if self.n > self.lim:
            lim = self.A + self.B * (self.cells() + 1)
            if self.n > lim:
                self.lim = 1 << 62
                raise SimHang()
            self.lim = lim

    def _cb(self, code, off):
        self._tick()

    def _cb3(self, code, off, dest):
        if dest < off:
            self._tick()

    def start(self, cells):
        self.cells = cells
        self.n = 0
        self.lim = self.A

    def stop(self):
        if self.n > self.max_seen:
            self.max_seen = self.n
        self.lim = 1 << 62
        n = self.n
        self.n = 0
        return n


# --------------------------------------------------------------------------- shadow tree

class SN:
    """Shadow of one cell, built only from observed node constructions and
    make_children events."""
    __slots__ = ("node", "parent", "children", "depth", "path", "part", "serial", "expansions")

    def __init__(self, node, part, serial):
        self.node = node
        self.part = part
        self.parent = None
        self.children = None
        self.depth = 0
        self.path = ()
        self.serial = serial
        self.expansions = 0

    def is_leaf(self):
        return self.children is None

    def name(self):
        return "/" + ".".join(str(i) for i in self.path)


class PartShadow:
    def __init__(self, part, serial):
        self.part = part
        self.serial = serial
        self.root = None
        self.nodes = {}
        self.order = []
        self.expansions = []
        self.owner = None
        self.max_depth = 0

    def sn(self, node):
        return self.nodes.get(id(node))

    def leaves(self):
        return [s for s in self.order if s.children is None]

    def by_depth(self):
        out = collections.defaultdict(list)
        for s in self.order:
            out[s.depth].append(s)
        return out

    def shape_hash(self):
        return H(tuple(sorted(s.path for s in self.order if s.children is None)))


# --------------------------------------------------------------------------- reward programs

def make_reward_fn(spec, domain):
    """Returns f(i, point) for round index i = 1..T.  All programs are finite."""
    if "explicit" in spec:
        vals = spec["explicit"]

        def f(i, p):
            if i - 1 < len(vals):
                return untag(vals[i - 1])
            return 0.0
        return f
    kind = spec["kind"]
    r = _pyrandom.Random(H(spec.get("seed", 0), "rewards"))
    scale = spec.get("scale", 1.0)
    tmix = spec.get("types", "f")

    def objective(p):
        s = 0.0
        for x, (lo, hi), c in zip(p, domain, spec.get("opt", [0.3] * len(domain))):
            z = (float(x) - lo) / (hi - lo) if hi > lo else 0.0
            s += (z - c) ** 2
        return -s

    late = spec.get("late", 50)

    def base(i, p):
        if kind == "const":
            return spec.get("value", 0.5)
        if kind == "zero":
            return 0.0
        if kind == "neg":
            return -abs(r.gauss(0, 1)) - 0.1
        if kind == "int":
            return r.choice([-1, 0, 1])
        if kind == "gauss":
            return r.gauss(0, 1)
        if kind == "obj":
            return objective(p) + r.uniform(-0.1, 0.1)
        if kind == "objneg":
            return objective(p) - 1.0
        if kind == "late":
            return 5.0 if i == late else r.choice([0.0, 0.0, -1.0, 0.5])
        if kind == "altsign":
            return (1.0 if i % 2 else -1.0) * r.random()
        if kind == "fewlevels":
            return r.choice([0.0, 0.25, 0.5])
        if kind == "decimal":
            # one-decimal rewards: sums of them depend on the order in the last bit (0.1 + 0.2 != 0.3), so cells with the same
            # multiset of rewards end up with means, U- and B-values one ulp apart - near ties that are not ties
            return r.choice([0.1, 0.2, 0.3, 0.3, 0.7])
        if kind == "unit":
            return r.random()
        if kind == "edge":
            # monotone objective: the maximiser sits in a corner of the box
            sgn = spec.get("sign", 1.0)
            return sgn * sum(((float(x) - lo) / (hi - lo) if hi > lo else 0.0) for x, (lo, hi) in zip(p, domain)) / len(domain)
        if kind == "bernoulli":
            return 1.0 if r.random() < spec.get("p", 0.5) else 0.0
        if kind == "decay":
            return spec.get("sign", 1.0) / i
        if kind == "ramp":
            return spec.get("sign", 1.0) * i
        if kind == "score":
            return float(r.choice([0, 1, 5, 17, 100, 122, 200, 255]) if r.random() < 0.5 else r.randint(0, 255))
        raise HarnessError("unknown reward kind " + kind)

    offset = spec.get("offset", 0.0)

    def f(i, p):
        v = base(i, p) * scale + offset
        t = tmix[(i - 1) % len(tmix)]
        if t == "b":
            return np.bool_(v > 0.5)
        if t == "8":
            # narrow NumPy integer scalars (scores, counts): uint8 for 0..255, int8 for -128..127
            iv = int(round(v))
            if 0 <= iv <= 255:
                return np.uint8(iv)
            if -128 <= iv <= 127:
                return np.int8(iv)
            return float(v)
        if t == "L":
            # exact integers far beyond 2^53 (amounts in the smallest unit, fixed-point scores): neighbours differ by less
            # than the spacing of doubles there, so any detour through float() makes different rewards look equal
            return int(spec.get("bigsign", 1)) * (1 << 60) + int(round(v * 300))
        if t == "6":
            # 16-bit scores: a running total in the reward's own type wraps after a few hundred rounds
            iv = int(round(v))
            return np.int16(iv) if -32768 <= iv <= 32767 else float(v)
        if t == "I":
            return np.int64(int(round(v))) if abs(v) < 1e15 else float(v)
        if t == "p":
            return bool(v > 0.5)
        if t == "i":
            return int(round(v)) if abs(v) < 1e15 else float(v)
        if t == "n":
            return np.float64(v)
        return float(v)
    return f


def tag(v):
    if isinstance(v, np.bool_):
        return ["b", bool(v)]
    if isinstance(v, np.uint8):
        return ["u8", int(v)]
    if isinstance(v, np.int8):
        return ["i8", int(v)]
    if isinstance(v, np.int16):
        return ["i16", int(v)]
    if isinstance(v, np.int64):
        return ["i64", int(v)]
    if isinstance(v, (bool,)):
        return ["pb", bool(v)]
    if isinstance(v, int):
        return ["i", v]
    if isinstance(v, np.floating):
        return ["n", float(v)]
    return ["f", float(v)]


def untag(tv):
    if isinstance(tv, (int, float)):
        return tv
    t, v = tv
    if t == "b":
        return np.bool_(v)
    if t == "u8":
        return np.uint8(v)
    if t == "i8":
        return np.int8(v)
    if t == "i16":
        return np.int16(v)
    if t == "i64":
        return np.int64(v)
    if t == "pb":
        return bool(v)
    if t == "i":
        return int(v)
    if t == "n":
        return np.float64(v)
    return float(v)


def label_fn(spec):
    scheme = (spec or {}).get("scheme", "one")
    if scheme == "one":
        return lambda i: i
    if scheme == "zero":
        return lambda i: i - 1
    if scheme == "offset":
        off = spec.get("offset", 17)
        if spec.get("type") == "np":
            return lambda i: np.int64(i - 1 + off)      # labels taken from a NumPy array (np.arange(...))
        if spec.get("type") == "float":
            return lambda i: float(i - 1 + off)         # wall-clock-like labels
        return lambda i: i - 1 + off
    if scheme == "gaps":
        r = _pyrandom.Random(H(spec.get("seed", 0), "labels"))
        acc = [spec.get("start", 0)]

        def f(i):
            while len(acc) <= i:
                acc.append(acc[-1] + r.randint(1, spec.get("maxgap", 5)))
            return acc[i]
        return f
    if scheme == "explicit":
        vals = spec["values"]
        return lambda i: vals[i - 1] if i - 1 < len(vals) else (vals[-1] + i - len(vals) if vals else i)
    raise HarnessError("unknown label scheme " + scheme)


def delta_fn(spec):
    """User-supplied DOO diameter function delta(h)."""
    if spec is None:
        return None
    a = spec.get("a", 1.0)
    g = spec.get("g", 0.5)
    kind = spec.get("kind", "geom")
    if kind == "geom":
        return lambda h: a * g ** h
    if kind == "const":
        return lambda h: a
    if kind == "harm":
        return lambda h: a / (h + 1.0)
    raise HarnessError("unknown delta kind")


# --------------------------------------------------------------------------- context

class Ctx:
    """World state of one simulated run."""

    def __init__(self, scenario):
        self.sc = scenario
        self.algo_name = scenario["algo"]
        self.base_name = scenario.get("base")
        self.parts = []
        self.part_by_id = {}
        self.node_part = {}
        self.nnodes = 0
        self.oracles = []
        self.round = 0
        self.completed = 0
        self.events = 0
        self.hasher = hashlib.sha256()
        self.stats = collections.Counter()
        self.probes = collections.Counter()
        self.learners = []
        self.spy_log = []
        self._node_classes = {}
        self._building_part = []
        self._building_learner = []
        self._keep = []
        self.user_domain = None
        self.domain_copy = None
        self.in_call = None
        self.mc_in_call = 0
        self.credited = None
        self.algo = None
        self.seam = None
        self.expansion_log = []
        self.pull_count = 0
        self.top = None
        self.ledger = {}
        self.credit = {}

    # -- logging
    def log(self, *parts):
        self.events += 1
        self.hasher.update(("%d|" % self.events).encode())
        self.hasher.update("|".join(str(x) for x in parts).encode())
        self.hasher.update(b"\n")

    def digest(self):
        return self.hasher.hexdigest()

    def fail(self, prop, clause, detail="", site=None):
        raise Violation(prop, clause, detail, site)

    # -- recording classes
    def node_class(self, base):
        cls = self._node_classes.get(base)
        if cls is None:
            ctx = self

            class RecNode(base):
                def __init__(self, *a, **kw):
                    super().__init__(*a, **kw)
                    ctx._on_node_new(self)
            RecNode.__name__ = base.__name__
            RecNode.__qualname__ = base.__qualname__
            cls = RecNode
            self._node_classes[base] = cls
        return cls

    def partition_factory(self, spec):
        base = PARTITION_CLASSES[spec["cls"]]
        ctx = self

        class RecPartition(base):
            def __init__(self, *a, **kw):
                from PyXAB.partition.Node import P_node
                node = kw.pop("node", None)
                if node is None and len(a) >= 3 and "K" in spec:
                    raise HarnessError("positional node argument not supported")
                if node is None:
                    node = P_node
                ps = PartShadow(self, len(ctx.parts))
                ctx.parts.append(ps)
                ctx.part_by_id[id(self)] = ps
                if ctx._building_learner:
                    ps.owner = ctx._building_learner[-1]
                ctx._building_part.append(ps)
                try:
                    super().__init__(*a, node=ctx.node_class(node), **kw)
                finally:
                    ctx._building_part.pop()

            def make_children(self, parent, newlayer=False):
                ps = ctx.part_by_id[id(self)]
                ctx._on_mc_pre(ps, parent, newlayer)
                ctx._building_part.append(ps)
                try:
                    r = super().make_children(parent, newlayer=newlayer)
                finally:
                    ctx._building_part.pop()
                ctx._on_mc_post(ps, parent, newlayer)
                return r
        RecPartition.__name__ = base.__name__
        RecPartition.__qualname__ = base.__qualname__
        if "K" in spec:
            return functools.partial(RecPartition, K=spec["K"])
        return RecPartition

    def _on_node_new(self, node):
        if not self._building_part:
            # a node constructed outside any partition operation
            self.stats["orphan-node-constructions"] += 1
            return
        ps = self._building_part[-1]
        sn = SN(node, ps, self.nnodes)
        self.nnodes += 1
        ps.nodes[id(node)] = sn
        ps.order.append(sn)
        self._keep.append(node)
        if ps.root is None:
            ps.root = sn
        else:
            self._created.append(sn)

    _created = ()

    def _on_mc_pre(self, ps, parent, newlayer):
        self.mc_in_call += 1
        psn = ps.nodes.get(id(parent))
        self._created = []
        self._mc_parent = psn
        for o in self.oracles:
            o.on_mc_pre(ps, psn, parent, newlayer)

    def _on_mc_post(self, ps, parent, newlayer):
        psn = self._mc_parent
        created = self._created
        self._created = []
        if psn is not None:
            psn.expansions += 1
            first = psn.children is None
            if first:
                psn.children = created
            for k, c in enumerate(created):
                c.parent = psn
                c.depth = psn.depth + 1
                c.path = psn.path + (k,)
                if c.depth > ps.max_depth:
                    ps.max_depth = c.depth
            ps.expansions.append((psn, created, self.round))
            self.log("mc", ps.serial, psn.name(), len(created), int(bool(newlayer)))
        self.stats["expansions"] += 1
        for o in self.oracles:
            o.on_mc_post(ps, psn, parent, created, newlayer)

    # -- learner spies (POO / GPO)
    def spy_class(self, base):
        ctx = self

        class Spy(base):
            def __init__(self, *a, **kw):
                self._sim_id = len(ctx.learners)
                rec = {"id": self._sim_id, "kw": {k: v for k, v in kw.items() if k in ("nu", "rho", "rounds", "c", "delta", "bound")},
                       "obj": self, "part": None, "args": a, "round": ctx.round, "kind": base.__name__, "top": False,
                       "rounds": 0, "last_point": None}
                ctx.learners.append(rec)
                ctx.spy_log.append(("new", self._sim_id, rec["kw"]))
                ctx.log("learner-new", self._sim_id, sorted((k, fhex(v)) for k, v in rec["kw"].items()))
                ctx._building_learner.append(rec)
                try:
                    super().__init__(*a, **kw)
                finally:
                    ctx._building_learner.pop()
                for ps in ctx.parts:
                    if ps.owner is rec:
                        rec["part"] = ps
                rec["constructed"] = True

            def pull(self, time):
                rec = ctx.learners[self._sim_id]
                for o in ctx.oracles:
                    o.ag_before_pull(rec)
                p = super().pull(time)
                ctx.spy_log.append(("pull", self._sim_id, p, time))
                rec["last_point"] = p
                for o in ctx.oracles:
                    o.ag_after_pull(rec, p)
                return p

            def receive_reward(self, time, reward):
                rec = ctx.learners[self._sim_id]
                ctx.spy_log.append(("rew", self._sim_id, reward, time))
                for o in ctx.oracles:
                    o.ag_before_reward(rec, reward)
                r = super().receive_reward(time, reward)
                rec["rounds"] += 1
                for o in ctx.oracles:
                    o.ag_after_reward(rec, reward)
                return r
        Spy.__name__ = base.__name__
        Spy.__qualname__ = base.__qualname__
        return Spy

    # -- tree helpers
    def main_part(self):
        for ps in self.parts:
            if ps.owner is None:
                return ps
        return None

    def reachable(self, ps):
        """Cells reachable from the root through the real get_children() links."""
        out = []
        seen = set()
        st = [ps.root.node]
        while st:
            n = st.pop()
            if id(n) in seen:
                continue
            seen.add(id(n))
            out.append(n)
            ch = n.get_children()
            if ch:
                st.extend(ch)
        return out


# --------------------------------------------------------------------------- oracle base

class Oracle:
    prop = None

    def __init__(self, ctx):
        self.ctx = ctx

    def on_constructed(self): pass
    def before_pull(self): pass
    def after_pull(self, p): pass
    def before_reward(self, p, r): pass
    def after_reward(self, p, r): pass
    def on_mc_pre(self, ps, psn, parent, newlayer): pass
    def on_mc_post(self, ps, psn, parent, created, newlayer): pass
    def before_query(self, final): pass
    def after_query(self, p, final): pass
    def after_call(self, op): pass
    def ag_before_pull(self, ag): pass
    def ag_after_pull(self, ag, p): pass
    def ag_before_reward(self, ag, r): pass
    def ag_after_reward(self, ag, r): pass
    def finish(self): pass
    def on_crash(self, op, exc, site): pass
    def on_hang(self, op): pass


# --------------------------------------------------------------------------- building an algorithm

def build_domain(sc):
    dom = [[float(lo), float(hi)] for lo, hi in sc["domain"]]
    if sc.get("int_bounds"):
        # the README's way of writing a box: [[0, 1]] with Python ints
        dom = [[int(lo) if float(lo).is_integer() else lo, int(hi) if float(hi).is_integer() else hi] for lo, hi in dom]
    if sc.get("aliased_rows") and all(r == dom[0] for r in dom):
        # the way a user writes a hypercube: [[lo, hi]] * d  (every row is the same list object)
        return [dom[0]] * len(dom)
    return dom


def build_algo(sc, ctx, domain, partition):
    name = sc["algo"]
    p = dict(sc.get("params") or {})
    if name == "DOO":
        d = delta_fn(p.pop("delta", None))
        return DOO(domain=domain, partition=partition, delta=d, **p)
    if name in ("POO", "GPO"):
        base = BASE_LEARNERS[sc["base"]]
        cls = ALGO_CLASSES[name]
        return cls(domain=domain, partition=partition, algo=ctx.spy_class(base) if ctx is not None else base, **p)
    if name in ("PCT", "VPCT"):
        mod, attr = (_PCT_mod, "HCT") if name == "PCT" else (_VPCT_mod, "VHCT")
        orig = getattr(mod, attr)
        if ctx is not None:
            setattr(mod, attr, ctx.spy_class(orig))
        try:
            return ALGO_CLASSES[name](domain=domain, partition=partition, **p)
        finally:
            setattr(mod, attr, orig)
    return ALGO_CLASSES[name](domain=domain, partition=partition, **p)


def plain_partition(spec):
    base = PARTITION_CLASSES[spec["cls"]]
    if "K" in spec:
        return functools.partial(base, K=spec["K"])
    return base


# --------------------------------------------------------------------------- the driver

class RunResult:
    def __init__(self):
        self.violation = None     # dict
        self.foreign = None       # dict: violation of a property that is not the judged one / crash
        self.stats = None
        self.probes = None
        self.fired = None
        self.digest = None
        self.explicit = None
        self.rounds = 0
        self.shape = None
        self.cells = 0
        self.max_steps = 0


def run_scenario(sc, oracle_classes, judged=None, want_explicit=True, watchdog=True):
    """Execute one scenario with the given oracles armed.  Returns RunResult.

    judged: set of property ids whose violations count; violations of other armed
    oracles (infrastructure the judged oracle depends on) and crashes end the run as
    'foreign'."""
    ctx = Ctx(sc)
    res = RunResult()
    seam = Seam(sc["rng"])
    ctx.seam = seam
    wd = Watchdog.get() if watchdog else None
    rewards_given = []
    labels_used = []
    sched = collections.defaultdict(int)
    schedmid = collections.defaultdict(int)   # queries between the pull and the receive_reward of a round
    for s in sc.get("schedule") or []:
        (schedmid if s.get("mid") else sched)[s["after"]] += s.get("times", 1)
    lab = label_fn(sc.get("labels"))
    T = sc["rounds"]
    viol = None
    seam.install()
    try:
        try:
            domain = build_domain(sc)
            ctx.user_domain = domain
            ctx.domain_copy = copy.deepcopy(domain)
            rf = make_reward_fn(sc["rewards"], ctx.domain_copy)
            for oc in oracle_classes:
                ctx.oracles.append(oc(ctx))

            def call(op, fn, *a, final=False):
                ctx.in_call = op
                ctx.mc_in_call = 0
                if wd is not None:
                    wd.start(lambda: ctx.nnodes)
                try:
                    try:
                        return fn(*a)
                    finally:
                        if wd is not None:
                            wd.stop()
                        ctx.in_call = None
                except SimHang:
                    ctx.log(op, "HANG")
                    for o in ctx.oracles:
                        o.on_hang(op)
                    raise Violation("C01", "hang", "step budget exceeded in %s at round %d" % (op, ctx.round), site=op)
                except (Violation, HarnessError, StopRun):
                    raise
                except Exception as e:  # crash inside the library
                    site = pyxab_site(e.__traceback__)
                    if site is None:
                        raise
                    ctx.log(op, "RAISE", type(e).__name__, site)
                    for o in ctx.oracles:
                        o.on_crash(op, e, site)
                    clause = "last-raise" if final else "raise"
                    raise Violation("C01", clause, "%s in %s at round %d: %s" % (type(e).__name__, op, ctx.round, str(e)[:120]),
                                    site="%s:%s" % (type(e).__name__, site))

            ctx.round = 0
            # noisy neighbours: other instances living in the same process (plain classes, not recorded),
            # constructed and driven for a while before the instance under test exists, then stepped between its rounds
            neighbours = []
            if sc.get("neighbours"):
                from .twins import Actor
                for nb in sc["neighbours"]:
                    act = Actor(nb["sc"], name="N")
                    for _ in range(1 + 2 * nb.get("pre", 0)):
                        if not act.done:
                            act.step()
                    neighbours.append((act, max(1, nb.get("every", 1))))
                    ctx.log("neighbour", nb["sc"]["algo"], nb.get("pre", 0), act.error)
                    ctx.stats["neighbour-instances"] += 1
            part = ctx.partition_factory(sc["partition"])
            ctx.algo = call("construct", build_algo, sc, ctx, domain, part)
            ctx.log("construct", sc["algo"], ctx.nnodes)
            top = {"id": -1, "kw": dict(sc.get("params") or {}), "obj": ctx.algo, "part": ctx.main_part(), "kind": sc["algo"],
                   "top": True, "rounds": 0, "last_point": None, "constructed": True}
            ctx.top = top
            for o in ctx.oracles:
                o.on_constructed()
                o.after_call("construct")
            algo = ctx.algo

            def query(final):
                for o in ctx.oracles:
                    o.before_query(final)
                p = call("get_last_point", algo.get_last_point, final=final)
                ctx.log("last", _plist(p))
                for o in ctx.oracles:
                    o.after_query(p, final)
                    o.after_call("get_last_point")
                ctx.stats["queries"] += 1

            for _ in range(sched.get(0, 0)):
                query(False)
            for i in range(1, T + 1):
                ctx.round = i
                t = lab(i)
                labels_used.append(t)
                for o in ctx.oracles:
                    o.before_pull()
                    o.ag_before_pull(top)
                p = call("pull", algo.pull, t)
                top["last_point"] = p
                ctx.pull_count += 1
                ctx.log("pull", t, _plist(p))
                for o in ctx.oracles:
                    o.after_pull(p)
                    o.ag_after_pull(top, p)
                    o.after_call("pull")
                for _ in range(schedmid.get(i, 0)):
                    query(False)
                    ctx.stats["mid-round-queries"] += 1
                r = rf(i, p if isinstance(p, list) else [0.0] * len(domain))
                rewards_given.append(tag(r))
                for o in ctx.oracles:
                    o.before_reward(p, r)
                    o.ag_before_reward(top, r)
                call("receive_reward", algo.receive_reward, t, r)
                ctx.completed = i
                top["rounds"] += 1
                ctx.log("reward", t, fhex(r))
                for o in ctx.oracles:
                    o.after_reward(p, r)
                    o.ag_after_reward(top, r)
                    o.after_call("receive_reward")
                for _ in range(sched.get(i, 0)):
                    query(False)
                    ctx.stats["interjected-queries"] += 1
                for act, every in neighbours:
                    if i % every == 0 and not act.done:
                        act.step()
                        if not act.done:
                            act.step()
                        ctx.stats["neighbour-rounds"] += 1
            ctx.round = T
            if sc.get("final_query", True):
                query(True)
            for o in ctx.oracles:
                o.finish()
        except Violation as v:
            viol = v
        except StopRun as e:
            ctx.stats["stopped:" + str(e)] += 1
    finally:
        seam.uninstall()
    res.rounds = ctx.completed
    res.stats = ctx.stats
    res.probes = ctx.probes
    res.fired = seam.fired
    res.fired["rng-calls"] = seam.calls
    if ctx.stats.get("interjected-queries"):
        res.fired["interject-query"] = ctx.stats["interjected-queries"]
    if ctx.stats.get("mid-round-queries"):
        res.fired["mid-round-query"] = ctx.stats["mid-round-queries"]
    if ctx.stats.get("neighbour-rounds"):
        res.fired["neighbour"] = ctx.stats["neighbour-rounds"]
    res.sites = seam.sites
    res.digest = ctx.digest()
    res.cells = ctx.nnodes
    res.max_steps = wd.max_seen if wd is not None else 0
    mp = ctx.main_part()
    res.shape = mp.shape_hash() if mp is not None and mp.root is not None else 0
    if viol is not None:
        info = {"property": viol.prop, "clause": viol.clause, "algo": algo_label(sc), "site": viol.site,
                "detail": viol.detail, "round": ctx.round}
        info["signature"] = signature(info)
        if judged is None or viol.prop in judged:
            res.violation = info
        else:
            res.foreign = info
    if want_explicit:
        ex = copy.deepcopy(sc)
        ex["rewards"] = {"explicit": rewards_given}
        ex["rng"] = seam.explicit_spec()
        ex["labels"] = {"scheme": "explicit", "values": labels_used}
        ex["rounds"] = max(ctx.round, 0) if viol is not None else T
        ex["schedule"] = [{"after": k, "times": v} for k, v in sorted(sched.items()) if k <= ex["rounds"]] + \
                         [{"after": k, "times": v, "mid": True} for k, v in sorted(schedmid.items()) if k <= ex["rounds"]]
        res.explicit = ex
    return res


def algo_label(sc):
    if sc["algo"] in ("POO", "GPO"):
        return "%s:%s" % (sc["algo"], sc.get("base"))
    return sc["algo"]


def signature(info):
    s = "%s/%s/%s" % (info["property"], info["clause"], info["algo"])
    if info.get("site"):
        s += "/" + info["site"]
    return s


def _plist(p):
    if isinstance(p, (list, tuple)):
        return ",".join(fhex(x) for x in p)
    return repr(p)
