"""Seeded swarm generators of scenarios.  A scenario is a JSON-able dict that fully
determines one simulated history (see engine.run_scenario)."""
import math
import random

from .engine import H

PARTS_ALL = (
    [{"cls": "BinaryPartition"}, {"cls": "RandomBinaryPartition"}, {"cls": "DimensionBinaryPartition"}]
    + [{"cls": "KaryPartition", "K": k} for k in (2, 3, 4, 5)]
    + [{"cls": "RandomKaryPartition", "K": k} for k in (2, 3, 4, 5)]
)
PARTS_BINARY_CHILD = [{"cls": "BinaryPartition"}, {"cls": "RandomBinaryPartition"},
                      {"cls": "KaryPartition", "K": 2}, {"cls": "RandomKaryPartition", "K": 2}]
PARTS_MIDPOINT = [{"cls": "BinaryPartition"}, {"cls": "DimensionBinaryPartition"}, {"cls": "KaryPartition", "K": 2}]

ALGOS_ALL = ["T_HOO", "HCT", "VHCT", "POO", "GPO", "PCT", "VPCT", "DOO", "SOO", "StoSOO", "SequOOL",
             "StroquOOL", "VROOM", "Zooming"]
REWARD_KINDS = ["const", "zero", "neg", "int", "gauss", "obj", "objneg", "late", "altsign", "fewlevels", "unit", "edge", "decay", "ramp",
                "decimal"]


def arity(part, d):
    if part["cls"] == "DimensionBinaryPartition":
        return 2 ** d
    if "K" in part:
        return part["K"]
    return 2


def is_random_partition(part):
    return part["cls"].startswith("Random")


def loguniform(r, lo, hi):
    return math.exp(r.uniform(math.log(lo), math.log(hi)))


def gen_side(r):
    k = r.randrange(9)
    if k == 0 or k == 1:
        return [0.0, 1.0]
    if k == 8:
        # a side that straddles zero with non-dyadic ends ([-0.7, 0.4], [-5.12, 5.12]): lo + (hi - lo) need not equal hi
        a = r.choice([r.uniform(0.1, 6), round(r.uniform(0.1, 6), 1), round(r.uniform(0.1, 6), 2)])
        b = a if r.random() < 0.3 else r.choice([r.uniform(0.1, 6), round(r.uniform(0.1, 6), 1)])
        return [-a, b]
    if k == 2:
        lo = r.uniform(-10, 10)
        return [lo, lo + r.uniform(0.1, 5)]
    if k == 3:
        hi = -r.uniform(0.1, 50)
        return [hi - r.uniform(0.1, 20), hi]
    if k == 4:
        lo = r.randint(-16, 16) / 4.0
        return [lo, lo + 2.0 ** r.randint(-3, 3)]
    if k == 5:
        lo = 1e6 * r.choice([1, -1]) + r.uniform(-1, 1)
        return [lo, lo + r.uniform(0.5, 3)]
    if k == 6:
        lo = r.uniform(-2, 2)
        return [lo, lo + 1e-3 * r.uniform(0.5, 2)]
    lo = r.uniform(-1e3, 1e3)
    return [lo, lo + loguniform(r, 1e-2, 1e3)]


def gen_domain(r, dmax=3, unit_prob=0.25):
    d = r.choice([1, 1, 2, 2, 3][: 2 * dmax - 1]) if dmax >= 1 else 1
    d = min(d, dmax)
    if dmax >= 3 and r.random() < 0.07:
        d = r.choice([4, 4, 5])     # higher dimensions: 16 / 32 children per DimensionBinary split, long index arithmetic
    if r.random() < unit_prob:
        return [[0.0, 1.0] for _ in range(d)]
    return [gen_side(r) for _ in range(d)]


def gen_rewards(r, kinds=None, seed=0):
    kind = r.choice(kinds or REWARD_KINDS)
    spec = {"kind": kind, "seed": seed}
    if kind == "const":
        spec["value"] = r.choice([0.5, -0.5, 0.0, 1.0, -3.0, 1e-3])
    m = r.random()
    if m < 0.08:
        spec["scale"] = 1e6
    elif m < 0.16:
        spec["scale"] = 1e-9
    elif m < 0.22:
        spec["scale"] = -1.0
    spec["types"] = r.choice(["f", "f", "f", "n", "fin", "i" if kind in ("int", "zero") else "f"])
    if kind in ("int", "zero", "score") and r.random() < 0.3:
        spec["types"] = r.choice(["I", "Ii", "If"])     # np.int64 scalars (not instances of int)
    if r.random() < 0.1 and "scale" not in spec:
        # rewards riding on a large constant: cancellation in one-pass variance / near-tie comparisons
        spec["offset"] = r.choice([1e3, 1e6, 1e6, 4e6, 1e8, -1e6])
    if r.random() < 0.04:
        spec = {"kind": "bernoulli", "seed": seed, "p": r.choice([0.2, 0.5, 0.8]), "types": r.choice(["b", "b", "f", "bf", "8", "p", "I"])}
    elif r.random() < 0.04:
        # integer scores as narrow NumPy scalars (uint8 / int8): sums of them wrap around unless widened
        spec = {"kind": r.choice(["score", "score", "int"]), "seed": seed, "types": r.choice(["8", "8", "8f", "6", "6"])}
    if kind == "late":
        spec["late"] = r.randint(1, 120)
    if kind in ("obj", "objneg"):
        spec["opt"] = [r.choice([r.random(), r.random(), 0.0, 1.0]) for _ in range(3)]
    if kind in ("edge", "decay", "ramp"):
        spec["sign"] = r.choice([1.0, -1.0])
    return spec


def gen_rng(r, seed, real_prob=0.3, faults=True):
    if r.random() < real_prob:
        return {"mode": "real", "np_seed": seed % (2 ** 31)}
    pol = {}
    if faults:
        pol["randint"] = r.choice(["iid", "iid", "iid", "const0", "constmax", "alternate", "sticky"])
        pol["endpoint"] = r.choice([0.0, 0.0, 0.05, 0.25])
        pol["choice"] = r.choice(["iid", "iid", "mix", "minp", "first", "last"])
        if r.random() < 0.15:
            pol["dyadic"] = r.choice([2, 4, 8])
    return {"mode": "scripted", "policy": pol, "seed": seed}


def gen_partition(r, pool=None):
    return dict(r.choice(pool or PARTS_ALL))


def gen_T(r, n):
    k = r.random()
    if k < 0.5:
        return n
    if k < 0.65:
        return r.randint(1, 10)
    if k < 0.8:
        return max(1, n // 2)
    return r.randint(1, n)


def gen_schedule(r, T, prob=0.3, mid_prob=0.0):
    if r.random() > prob or T < 1:
        return []
    out = []
    for _ in range(r.randint(1, 6)):
        e = {"after": r.randint(1, T), "times": r.randint(1, 5) if r.random() < 0.3 else 1}
        if mid_prob and r.random() < mid_prob:
            e["mid"] = True     # between the pull and the receive_reward of that round
        out.append(e)
    return out


# --------------------------------------------------------------------------- per-algorithm parameters

def gen_budget(r, lo=100, hi=600):
    """Budgets: half round numbers, half arbitrary (odd budgets and such matter for schedules)."""
    if r.random() < 0.5:
        return r.choice([x for x in (100, 100, 128, 200, 256, 300, 400, 512, 600) if lo <= x <= hi] or [lo])
    return r.randint(lo, hi)


def gen_neighbour(r, sc, seed):
    """A second instance of the same class with its own parameters (and sometimes its own box), living in
    the same process: built and driven for `pre` rounds before the instance under test, then one round
    after every `every`-th round of it."""
    algo = sc["algo"]
    d = len(sc["domain"])
    part = dict(sc["partition"])
    dom = [gen_side(r) for _ in range(d)] if r.random() < 0.5 else [list(x) for x in sc["domain"]]
    n2 = gen_budget(r, 100, 300) if algo != "VROOM" else r.choice([16, 32, 64, 100])
    params, n2, meta = gen_algo_params(r, algo, part, d, n2, ok_only=True, cap_mode="big")
    if algo == "VROOM":
        params["n"] = n2
    nb = {"algo": algo, "params": params, "partition": part, "domain": dom, "rounds": r.choice([20, 60, n2]),
          "rewards": {"kind": r.choice(["gauss", "unit", "neg", "const"]), "seed": seed + 7}, "rng": sc["rng"], "final_query": False}
    if algo in ("POO", "GPO"):
        nb["base"] = sc.get("base")
    if algo in ("POO", "GPO", "PCT", "VPCT"):
        nb["params"]["rhomax"] = min(max(nb["params"]["rhomax"], 0.84), 0.95)
    return {"sc": nb, "pre": r.choice([0, 5, 20, 60]), "every": r.choice([1, 1, 2, 5])}


def tree_params(r, algo, n):
    p = {"nu": loguniform(r, 0.05, 20), "rho": r.uniform(0.05, 0.95)}
    if r.random() < 0.15:
        p = {"nu": 1.0, "rho": 0.5}
    if algo == "T_HOO":
        p["rounds"] = n
    if algo in ("HCT", "VHCT"):
        p["c"] = loguniform(r, 0.05, 3)
        p["delta"] = loguniform(r, 0.001, 0.9)
    if algo == "VHCT":
        p["bound"] = loguniform(r, 0.1, 3)
    if r.random() < 0.08:
        # corners of the documented ranges: nu tiny or huge, rho close to 0 or to 1, delta close to 1, c large
        # (delta-tilde above 1 before its cap, thresholds of 1e12 pulls or of 0, truncation depths <= 0 or in the hundreds)
        ext = {"nu": [1e-6, 1e-3, 0.01, 100.0, 1e4], "rho": [0.01, 0.02, 0.98, 0.99], "delta": [0.9, 0.99, 0.999, 1e-6],
               "c": [5.0, 20.0, 0.005], "bound": [0.01, 50.0]}
        for k in list(p):
            if k in ext and r.random() < 0.5:
                p[k] = r.choice(ext[k])
    return p


def gen_algo_params(r, algo, part, d, n=None, *, ok_only=False, cap_mode="any"):
    """Returns (params, n, meta).  meta["c01_proviso"] is False for runs whose depth caps
    cannot hold the budget (outside the statement of C01); meta["known"] names a recorded
    finding the configuration is expected to hit (or None)."""
    meta = {"c01_proviso": True, "known": None}
    K = arity(part, d)
    if n is None:
        n = gen_budget(r)
    if algo in ("T_HOO", "HCT", "VHCT"):
        return tree_params(r, algo, n), n, meta
    if algo == "Zooming":
        return {"nu": loguniform(r, 0.05, 20), "rho": r.uniform(0.05, 0.95)}, n, meta
    if algo in ("POO", "GPO", "PCT", "VPCT"):
        rhomax = r.uniform(0.05, 0.99) if not ok_only else r.uniform(0.84, 0.985)
        if r.random() < 0.5:
            rhomax = r.uniform(0.84, 0.985)
        p = {"numax": loguniform(r, 0.05, 20), "rhomax": rhomax, "rounds": n}
        if algo == "POO" and rhomax < 0.8325:
            meta["known"] = "poo-rhomax"
        return p, n, meta
    if algo == "DOO":
        p = {"n": n}
        if r.random() < 0.4:
            p["delta"] = {"kind": r.choice(["geom", "geom", "const", "harm"]), "a": loguniform(r, 0.01, 10), "g": r.uniform(0.2, 0.9)}
        return p, n, meta
    if algo == "SOO":
        full = 0
        h = 0
        need = []
        while True:
            full += K ** h
            need.append(full)
            if full >= n:
                break
            h += 1
        hmin = h  # smallest cap that holds the budget n
        mode = cap_mode if cap_mode != "any" else r.choice(["big", "big", "tight", "binding"])
        if mode == "big":
            hm = r.choice([100, 50, n])
        elif mode == "tight":
            hm = hmin + r.randint(0, 2)
        else:
            hm = max(0, hmin - r.randint(1, 3))
            meta["c01_proviso"] = False
        return {"n": n, "h_max": hm}, n, meta
    if algo == "StoSOO":
        k = r.choice([None, None, 1, 2, 5])
        kk = k if k is not None else math.ceil(n / (math.log(n) ** 3))
        mode = cap_mode if cap_mode != "any" else r.choice(["big", "big", "tight", "binding"])
        hmin = int(math.floor(n / kk))  # (h_max + 1) * k > n
        if mode == "big":
            hm = r.choice([100, n, 1000]) if hmin < 100 else hmin + 1
            hm = max(hm, hmin)
        elif mode == "tight":
            hm = hmin + r.randint(0, 2)
        else:
            hm = r.randint(1, 5)
            if (hm + 1) * kk <= n:
                meta["c01_proviso"] = False
        p = {"n": n, "k": k, "h_max": hm, "delta": r.choice([None, None, 0.1, 0.01, 0.5])}
        return p, n, meta
    if algo == "SequOOL":
        return {"n": n}, n, meta
    if algo == "StroquOOL":
        return {"n": n}, n, meta
    if algo == "VROOM":
        n = r.choice([100, 100, 110, 128])
        sd = int(math.floor(math.log2(n)))
        hm = r.choice([1, 2, sd - 1, sd, sd + 1, sd + 3, 20, 100])
        p = {"n": n, "h_max": hm, "b": loguniform(r, 0.1, 2), "f_max": loguniform(r, 0.5, 5)}
        if K != 2:
            meta["known"] = "vroom-nonbinary"
        return p, n, meta
    raise ValueError(algo)


def base_scenario(r, seed, algo, *, parts=None, dmax=3, n=None, T=None, real_prob=0.3, faults=True,
                  reward_kinds=None, ok_only=False, cap_mode="any", sched_prob=0.0, labels=False, base=None, mid_prob=0.0,
                  neighbour_prob=0.0):
    part = gen_partition(r, parts)
    if part.get("K", 2) > 2 and r.random() < 0.06:
        part["K"] = r.choice([6, 7, 8])     # larger arities than the documented examples use
    dom = gen_domain(r, dmax)
    d = len(dom)
    if algo == "VROOM" and arity(part, d) > 4:
        # keep the pre-built tree small: K^floor(log2 n) cells
        part = gen_partition(r, PARTS_BINARY_CHILD + [{"cls": "KaryPartition", "K": 3}, {"cls": "RandomKaryPartition", "K": 3}])
    params, n, meta = gen_algo_params(r, algo, part, d, n, ok_only=ok_only, cap_mode=cap_mode)
    sc = {"algo": algo, "params": params, "partition": part, "domain": dom}
    if all(float(v).is_integer() for iv in dom for v in iv) and r.random() < 0.5:
        sc["int_bounds"] = True       # bounds written as Python ints, as in the README
    if len(dom) > 1 and all(x == dom[0] for x in dom) and r.random() < 0.5:
        sc["aliased_rows"] = True     # the user wrote the hypercube as [[lo, hi]] * d
    if algo in ("POO", "GPO"):
        sc["base"] = base or r.choice(["T_HOO", "HCT", "VHCT"])
    sc["budget"] = n
    sc["rounds"] = T if T is not None else gen_T(r, n)
    sc["rewards"] = gen_rewards(r, reward_kinds, seed)
    sc["rng"] = gen_rng(r, seed, real_prob, faults)
    # SequOOL.get_last_point reads the reward of the cell just handed out, so it is not callable between a pull
    # and its receive_reward (outside the documented loop; not held against it)
    sc["schedule"] = gen_schedule(r, sc["rounds"], sched_prob, 0.0 if algo == "SequOOL" else mid_prob)
    if labels:
        sc["labels"] = r.choice([{"scheme": "one"}, {"scheme": "zero"}, {"scheme": "offset", "offset": 17},
                                 {"scheme": "gaps", "seed": seed, "start": r.randint(0, 3)}])
    sc["meta"] = meta
    if neighbour_prob and r.random() < neighbour_prob and meta.get("known") is None:
        sc["neighbours"] = [gen_neighbour(r, sc, seed)]
    return sc


def within_c01_provisos(sc):
    """C01's provisos recomputed from the scenario itself (shrinkers change K, d, n, h_max; the generator's meta flag does
    not follow them): T <= declared budget; SOO's and StoSOO's depth caps large enough to hold the budget."""
    if "algo" not in sc or sc["algo"] == "RAW":
        return True
    p = sc.get("params") or {}
    algo = sc["algo"]
    n = p.get("n", p.get("rounds"))
    if n is not None and sc.get("rounds", 0) > n:
        return False
    T = sc.get("rounds", 0)
    if algo == "SOO":
        # enough evaluable cells under the cap for the T rounds driven (DESIGN 5.1)
        K = arity(sc["partition"], len(sc["domain"]))
        hm = p.get("h_max", 100)
        tot, h = 0, 0
        while h <= hm and tot < T:
            tot += K ** h
            h += 1
        return tot >= T
    if algo == "StoSOO":
        # no cell of depth h_max can have been evaluated k times within T rounds
        k = p.get("k")
        kk = k if k is not None else math.ceil(n / (math.log(n) ** 3))
        return (p.get("h_max", 100) + 1) * kk > T
    return True


def zooming_deep(r, sc, seed):
    """Zooming driven down one chain of cells to (and past) float resolution: rho close to 1, nu large enough for the
    confidence radius to meet nu*rho^depth at every pull, and rewards riding on a constant that dwarfs the index of a
    fresh arm, so the arm with a history is played every round and its cell is refined every round."""
    sc["params"] = {"nu": loguniform(r, 2, 30), "rho": r.uniform(0.97, 0.995)}
    sc["rewards"] = {"kind": r.choice(["unit", "const", "fewlevels", "gauss"]), "seed": seed, "types": "f",
                     "offset": r.choice([1e2, 1e3, 1e3, 1e4])}
    if sc["rewards"]["kind"] == "const":
        sc["rewards"]["value"] = 0.5
    sc["rounds"] = r.choice([80, 120, 200, 400])
    sc["budget"] = max(sc.get("budget") or 0, sc["rounds"])
    if r.random() < 0.6:
        sc["domain"] = sc["domain"][:1]
        sc.pop("aliased_rows", None)
    if r.random() < 0.5:
        sc["partition"] = dict(r.choice(PARTS_MIDPOINT))
    sc["neighbours"] = []
    return sc


def weighted(r, items):
    tot = sum(w for _, w in items)
    x = r.random() * tot
    for it, w in items:
        x -= w
        if x <= 0:
            return it
    return items[-1][0]
