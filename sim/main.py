"""Command line entry: check / replay / digests (used by bin/check, bin/replay)."""
import os
import sys
import json

_here = os.path.dirname(os.path.abspath(__file__))
_verif = os.path.dirname(_here)
if _verif not in sys.path:
    sys.path.insert(0, _verif)
# never run this file as "sim.main" and "__main__" at once: import the package modules by name
from sim import engine, runner  # noqa: E402


def main(argv):
    import warnings
    warnings.simplefilter("ignore")
    if not argv:
        print("usage: main.py check <Cxx> [--tier quick|thorough] | replay <file> | digests <Cxx> <tier> <seed> <i,j,...>")
        return 2
    cmd = argv[0]
    if cmd == "check":
        prop = argv[1]
        tier = os.environ.get("VERIF_TIER", "quick")
        n = None
        if "--tier" in argv:
            tier = argv[argv.index("--tier") + 1]
        if "--runs" in argv:
            n = int(argv[argv.index("--runs") + 1])
        seed = int(os.environ.get("VERIF_SEED", "0") or 0)
        print("check %s tier=%s VERIF_SEED=%d repo=%s" % (prop, tier, seed, engine.REPO))
        try:
            return runner.run_check(prop, tier, seed, n_override=n)
        except engine.HarnessError as e:
            print("HARNESS-ERROR %s" % e)
            return 2
    if cmd == "replay":
        code, _ = runner.replay(argv[1])
        return code
    if cmd == "replay-json":
        code, res = runner.replay(argv[1], quiet=True)
        v = res.violation or {}
        print(json.dumps({"signature": v.get("signature"), "round": v.get("round"), "digest": res.digest}))
        return 0
    if cmd == "rebase-replay":
        # re-run a replay file and rewrite its expectation from what is observed now
        path = argv[1]
        rp = json.load(open(path))
        for kv in argv[2:]:
            k, v = kv.split("=")
            rp["scenario"][k] = json.loads(v)
        res = runner.registry()[rp["check"]].run(rp["scenario"])
        if res.violation is None:
            print("no violation; file left unchanged")
            return 1
        v = res.violation
        rp["expect"] = {"signature": v["signature"], "round": v["round"], "digest": res.digest, "detail": v["detail"]}
        json.dump(rp, open(path, "w"), indent=1, default=runner._json_default)
        print("rebased:", v["signature"], "round", v["round"])
        return 0
    if cmd == "digest-scenario":
        sc = json.load(open(argv[2]))
        res = runner.registry()[argv[1]].run(sc)
        print(res.digest)
        return 0
    if cmd == "digests":
        prop, tier, seed, idx = argv[1], argv[2], int(argv[3]), [int(x) for x in argv[4].split(",") if x]
        out = {}
        for i in idx:
            sc, res = runner.run_index(prop, tier, seed, i)
            out[i] = res.digest
        print(json.dumps(out))
        return 0
    if cmd == "show":
        prop, tier, seed, i = argv[1], argv[2], int(argv[3]), int(argv[4])
        sc, res = runner.run_index(prop, tier, seed, i)
        print(json.dumps(sc, indent=1, default=runner._json_default))
        print("rounds", res.rounds, "cells", res.cells, "digest", res.digest)
        print("violation", res.violation)
        print("foreign", res.foreign)
        print("stats", dict(res.stats))
        print("probes", dict(res.probes))
        return 0
    print("unknown command", cmd)
    return 2


if __name__ == "__main__":
    try:
        rc = main(sys.argv[1:])
    except Exception:
        import traceback
        traceback.print_exc()
        print("HARNESS-ERROR unexpected exception in the harness (not a property verdict)")
        rc = 2
    sys.stdout.flush()
    os._exit(rc) if False else sys.exit(rc)
