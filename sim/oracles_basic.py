"""Oracles C01 (totality / in-box), C02 (tiling), C03 (tree / index consistency)."""
import math
import itertools
import numbers

from .engine import Oracle, fhex, H, close


def _is_real(x):
    return isinstance(x, numbers.Real) and not isinstance(x, bool)


# --------------------------------------------------------------------------- C01

class C01(Oracle):
    """Every pull returns a list of d finite numbers in the user's box; so does
    get_last_point.  Crashes and hangs are turned into C01 violations by the driver."""
    prop = "C01"

    def _check(self, p, kind):
        dom = self.ctx.domain_copy
        if not isinstance(p, list):
            self.ctx.fail("C01", kind + "-type", "returned %r" % (type(p).__name__,))
        if len(p) != len(dom):
            self.ctx.fail("C01", kind + "-length", "len %d != d %d" % (len(p), len(dom)))
        for x, (lo, hi) in zip(p, dom):
            if not _is_real(x):
                self.ctx.fail("C01", kind + "-type", "coordinate %r" % (type(x).__name__,))
            if not math.isfinite(x):
                self.ctx.fail("C01", kind + "-nonfinite", repr(p))
            if not (lo <= x <= hi):
                self.ctx.fail("C01", kind + "-outside-box", "%s not in [%s,%s]" % (fhex(x), fhex(lo), fhex(hi)))

    def after_pull(self, p):
        self._check(p, "pull")

    def after_query(self, p, final):
        self._check(p, "last")


# --------------------------------------------------------------------------- C02

ARITY = {
    "BinaryPartition": lambda spec, d: 2,
    "RandomBinaryPartition": lambda spec, d: 2,
    "DimensionBinaryPartition": lambda spec, d: 2 ** d,
    "KaryPartition": lambda spec, d: spec["K"],
    "RandomKaryPartition": lambda spec, d: spec["K"],
}
EQUAL_SIZE = ("BinaryPartition", "DimensionBinaryPartition", "KaryPartition")


def _box(node):
    dom = node.get_domain()
    return [(float(a), float(b)) for a, b in dom]


def tiling_problem(pbox, cboxes):
    """Exact grid-tiling test.  Returns None or (clause, detail)."""
    d = len(pbox)
    for cb in cboxes:
        if len(cb) != d:
            return ("not-contained", "child dimension %d != %d" % (len(cb), d))
        for (lo, hi), (plo, phi) in zip(cb, pbox):
            if not (math.isfinite(lo) and math.isfinite(hi)) or lo > hi:
                return ("not-contained", "bad child interval [%s,%s]" % (fhex(lo), fhex(hi)))
            if lo < plo or hi > phi:
                return ("not-contained", "[%s,%s] not within [%s,%s]" % (fhex(lo), fhex(hi), fhex(plo), fhex(phi)))
    grids = []
    for k in range(d):
        pts = sorted(set([pbox[k][0], pbox[k][1]] + [c[k][0] for c in cboxes] + [c[k][1] for c in cboxes]))
        lows = [c[k][0] for c in cboxes]
        highs = [c[k][1] for c in cboxes]
        if min(lows) != pbox[k][0] or max(highs) != pbox[k][1]:
            return ("outer-face", "dim %d: children span [%s,%s], parent [%s,%s]" % (
                k, fhex(min(lows)), fhex(max(highs)), fhex(pbox[k][0]), fhex(pbox[k][1])))
        grids.append(pts)
    cells_per_dim = [[(g[i], g[i + 1]) for i in range(len(g) - 1)] for g in grids]
    for cell in itertools.product(*cells_per_dim):
        n = 0
        for cb in cboxes:
            if all(c[0] <= e[0] and e[1] <= c[1] for c, e in zip(cb, cell)):
                n += 1
        if n == 0:
            return ("gap", "uncovered region %s" % (";".join("[%s,%s]" % (fhex(a), fhex(b)) for a, b in cell)))
        if n > 1:
            return ("overlap", "region %s covered %d times" % (";".join("[%s,%s]" % (fhex(a), fhex(b)) for a, b in cell), n))
    return None


class C02(Oracle):
    prop = "C02"
    MAX_GRID_LEAVES = 256

    def __init__(self, ctx):
        super().__init__(ctx)
        self.spec = ctx.sc["partition"]
        self.cls = self.spec["cls"]
        self.checked = 0
        self.pre_box = None
        self.boxes = {}     # id(node) -> box recorded when the cell was created: a cell's box never changes

    def on_mc_pre(self, ps, psn, parent, newlayer):
        # the parent's box as it is *before* the split (a split must not alter it)
        self.pre_box = _box(parent)

    def on_mc_post(self, ps, psn, parent, created, newlayer):
        if psn is None:
            return
        ctx = self.ctx
        pbox = self.pre_box if self.pre_box is not None else _box(parent)
        if _box(parent) != pbox:
            ctx.fail("C02", "box-mutated", "%s: splitting cell %s changed the cell's own box from %r to %r" % (
                self.cls, psn.name(), pbox, _box(parent)))
        for c in created:
            self.boxes[id(c.node)] = _box(c.node)
        d = len(pbox)
        ar = ARITY[self.cls](self.spec, d)
        if len(created) != ar:
            ctx.fail("C02", "arity", "%d cells created, documented arity %d" % (len(created), ar))
        cboxes = [_box(c.node) for c in created]
        prob = tiling_problem(pbox, cboxes)
        if prob is not None:
            ctx.fail("C02", prob[0], "%s splitting %s: %s" % (self.cls, psn.name(), prob[1]))
        zero = any(lo == hi for cb in cboxes for lo, hi in cb)
        pzero = any(lo == hi for lo, hi in pbox)
        if zero and not pzero:
            ctx.probes["zero-width-cell-created"] += 1
        # equal-size classes
        if self.cls in EQUAL_SIZE:
            mag = max(max(abs(a), abs(b)) for a, b in pbox)
            for cb in cboxes:
                changed = 0
                for k in range(d):
                    if cb[k] == pbox[k]:
                        continue
                    changed += 1
                    parts = 2 if self.cls != "KaryPartition" else self.spec["K"]
                    want = (pbox[k][1] - pbox[k][0]) / parts
                    got = cb[k][1] - cb[k][0]
                    if abs(got - want) > 8 * math.ulp(max(mag, 1e-300)):
                        ctx.fail("C02", "unequal-width", "%s dim %d: width %s, expected %s" % (self.cls, k, fhex(got), fhex(want)))
                want_changed = d if self.cls == "DimensionBinaryPartition" else 1
                if changed > want_changed and not pzero:
                    ctx.fail("C02", "off-dimension-changed", "%d dimensions changed" % changed)
        else:
            for cb in cboxes:
                if sum(1 for k in range(d) if cb[k] != pbox[k]) > 1:
                    ctx.fail("C02", "off-dimension-changed", "more than one dimension changed")
        # representative = centre
        for c, cb in zip(created, cboxes):
            cp = c.node.get_cpoint()
            if not isinstance(cp, list) or len(cp) != d:
                ctx.fail("C02", "centre", "representative %r" % (cp,))
            for x, (lo, hi) in zip(cp, cb):
                mid = lo + (hi - lo) / 2
                tol = 2 * math.ulp(max(abs(lo), abs(hi), 1e-300))
                if not (lo <= x <= hi) or abs(float(x) - mid) > tol:
                    ctx.fail("C02", "centre", "representative %s of [%s,%s]" % (fhex(x), fhex(lo), fhex(hi)))
        self.checked += 1
        ctx.stats["c02-expansions-checked"] += 1

    def on_constructed(self):
        # root cell = the user's box, representative at its centre
        for ps in self.ctx.parts:
            if ps.root is None:
                continue
            rb = _box(ps.root.node)
            if rb != [tuple(x) for x in self.ctx.domain_copy]:
                self.ctx.fail("C02", "outer-face", "root cell %r is not the user's box" % (rb,))
            for x, (lo, hi) in zip(ps.root.node.get_cpoint(), rb):
                if abs(float(x) - (lo + (hi - lo) / 2)) > 2 * math.ulp(max(abs(lo), abs(hi), 1e-300)):
                    self.ctx.fail("C02", "centre", "root representative %s" % fhex(x))

    def finish(self):
        ctx = self.ctx
        for ps in ctx.parts:
            if ps.root is None:
                continue
            for s in ps.order:
                b0 = self.boxes.get(id(s.node))
                if b0 is not None and _box(s.node) != b0:
                    ctx.fail("C02", "box-mutated", "%s: the box of cell %s changed after it was created" % (self.cls, s.name()))
            # the leaves of the tree as the library reports it (reachable from the root)
            leaves = [n for n in ctx.reachable(ps) if not n.get_children()]
            # ... must tile the box the user passed in (not whatever the root cell claims now)
            rbox = [tuple(x) for x in ctx.domain_copy] if ps.owner is None or True else _box(ps.root.node)
            if _box(ps.root.node) != rbox:
                ctx.fail("C02", "box-mutated", "%s: the root cell's box is now %r, the domain is %r" % (self.cls, _box(ps.root.node), rbox))
            if len(leaves) <= self.MAX_GRID_LEAVES:
                boxes = [_box(n) for n in leaves]
                npts = 1
                for k in range(len(rbox)):
                    npts *= len(set([b[k][0] for b in boxes] + [b[k][1] for b in boxes]))
                if npts <= 20000:
                    prob = tiling_problem(rbox, boxes)
                    if prob is not None:
                        ctx.fail("C02", "leaves-do-not-tile", "%s: %s" % prob)
                    ctx.stats["c02-leaf-tilings-grid"] += 1
                    continue
            self._probe(ps, leaves, rbox)

    def _probe(self, ps, leaves, rbox):
        import random
        r = random.Random(H("c02probe", len(leaves), self.ctx.completed))
        boxes = [_box(n) for n in leaves]
        for _ in range(300):
            pt = [lo + (hi - lo) * r.random() for lo, hi in rbox]
            n = sum(1 for b in boxes if all(lo < x < hi for x, (lo, hi) in zip(pt, b)))
            on_face = any(any(x == lo or x == hi for x, (lo, hi) in zip(pt, b)) for b in boxes
                          if all(lo <= x <= hi for x, (lo, hi) in zip(pt, b)))
            if n != 1 and not on_face:
                self.ctx.fail("C02", "leaves-do-not-tile", "probe point in %d leaf interiors" % n)
        self.ctx.stats["c02-leaf-tilings-probe"] += 1


# --------------------------------------------------------------------------- C03

def _exact_int(v):
    """The label as an exact Python integer, or None if it is not an integer >= 1."""
    try:
        iv = int(v)
    except Exception:
        return None
    if iv != v or iv < 1:
        return None
    return iv


class C03(Oracle):
    """Shadow tree (from observed node constructions inside make_children calls) versus
    what the partition's public getters report."""
    prop = "C03"

    def __init__(self, ctx):
        super().__init__(ctx)
        self.dirty = set()
        self.full_checks = 0

    def on_mc_pre(self, ps, psn, parent, newlayer):
        ctx = self.ctx
        if psn is None:
            ctx.fail("C03", "parent-child-link", "make_children on a cell unknown to this partition")
        if psn.children is not None:
            ctx.fail("C03", "re-expansion", "cell %s (depth %d) split a second time" % (psn.name(), psn.depth))

    def on_mc_post(self, ps, psn, parent, created, newlayer):
        self.dirty.add(ps.serial)
        ch = parent.get_children()
        if ch is None or len(ch) != len(created) or any(a is not b.node for a, b in zip(ch, created)):
            self.ctx.fail("C03", "child-list-foreign", "children of %s right after its split are not the %d cells that split created" % (psn.name(), len(created)))

    def after_call(self, op):
        if not self.dirty:
            return
        for ps in self.ctx.parts:
            if ps.serial in self.dirty:
                self.check(ps)
        self.dirty.clear()

    def finish(self):
        for ps in self.ctx.parts:
            self.check(ps)

    def check(self, ps):
        ctx = self.ctx
        part = ps.part
        if ps.root is None:
            return
        self.full_checks += 1
        ctx.stats["c03-full-checks"] += 1
        if part.get_root() is not ps.root.node:
            ctx.fail("C03", "parent-child-link", "get_root() is not the root cell")
        nl = part.get_node_list()
        by_depth = ps.by_depth()
        maxd = max(by_depth)
        if part.get_depth() != maxd:
            ctx.fail("C03", "partition-depth", "get_depth()=%r, deepest non-empty level %d" % (part.get_depth(), maxd))
        if len(nl) != maxd + 1:
            ctx.fail("C03", "partition-depth", "node list has %d levels, deepest level %d" % (len(nl), maxd))
        for h in range(maxd + 1):
            want = by_depth[h]
            got = nl[h]
            ids = [id(n) for n in got]
            if len(set(ids)) != len(ids):
                ctx.fail("C03", "layer-multiset", "level %d lists a cell more than once" % h)
            if set(ids) != set(id(s.node) for s in want):
                extra = len(set(ids) - set(id(s.node) for s in want))
                miss = len(set(id(s.node) for s in want) - set(ids))
                ctx.fail("C03", "layer-multiset", "level %d: %d foreign / mis-layered cells, %d missing" % (h, extra, miss))
            labels = set()
            for n in got:
                if n.get_depth() != h:
                    ctx.fail("C03", "depth-position", "cell with get_depth()=%r listed at level %d" % (n.get_depth(), h))
                lab = n.get_index()
                if lab in labels:
                    ctx.fail("C03", "label-duplicate", "index %r appears twice at depth %d" % (lab, h))
                labels.add(lab)
        for s in ps.order:
            n = s.node
            ch = n.get_children()
            if s.children is None:
                if ch is not None:
                    ctx.fail("C03", "parent-child-link", "leaf %s reports children" % s.name())
            else:
                if ch is None:
                    ctx.fail("C03", "parent-child-link", "split cell %s reports no children" % s.name())
                if len(ch) != len(s.children) or any(a is not b.node for a, b in zip(ch, s.children)):
                    ctx.fail("C03", "child-list-foreign",
                             "cell %s: child list has %d entries, its own split created %d" % (s.name(), len(ch), len(s.children)))
                K = len(s.children)
                i = _exact_int(n.get_index())
                for j, c in enumerate(s.children):
                    if c.node.get_parent() is not n:
                        ctx.fail("C03", "parent-child-link", "child %s does not name %s as parent" % (c.name(), s.name()))
                    # exact integer arithmetic: a label held in a fixed-width integer type wraps silently
                    ci = _exact_int(c.node.get_index())
                    if i is None or ci is None or ci != K * (i - 1) + 1 + j:
                        ctx.fail("C03", "label-children", "child %d of cell index %r has index %r, expected %r" % (
                            j, n.get_index(), c.node.get_index(), None if i is None else K * (i - 1) + 1 + j))
            if s.parent is None:
                if s is ps.root:
                    if n.get_parent() is not None:
                        ctx.fail("C03", "parent-child-link", "root has a parent")
                    if n.get_depth() != 0:
                        ctx.fail("C03", "depth-position", "root depth %r" % n.get_depth())
