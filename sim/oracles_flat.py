"""C08 (SOO / StoSOO / DOO sweep rules), C12 (SequOOL opening schedule), C07 (recommendations).

All three read the ledger built by C04 (armed first)."""
import math

from .engine import Oracle, HarnessError, close, ge_tol, fhex, StopRun
from .oracles_tree import same_point, gpo_schedule, _attr, contains


def _led(ctx, node):
    return ctx.ledger.get(id(node))


def _count(ctx, node):
    led = ctx.ledger.get(id(node))
    return led.count if led is not None else 0


def _mean(ctx, node):
    led = ctx.ledger.get(id(node))
    if led is None or not led.list:
        return None
    return math.fsum(float(x) for x in led.list) / len(led.list)


class StopOutsideProviso(Oracle):
    """Ends the judged part of a run quietly when the algorithm has left the provisos
    of the property (pull returned no point because the depth cap is exhausted)."""
    prop = None

    def after_pull(self, p):
        if not isinstance(p, list):
            raise StopRun("pull-returned-no-point")

    def on_hang(self, op):
        if not (self.ctx.sc.get("meta") or {}).get("c01_proviso", True):
            raise StopRun("hang-with-exhausted-depth-cap")


class C08(Oracle):
    prop = "C08"

    def __init__(self, ctx):
        super().__init__(ctx)
        self.kind = ctx.algo_name
        self.sweep_max = -math.inf
        self.sweep_depth = -1
        self.exp_in_pull = 0
        self.in_pull = False
        p = ctx.sc.get("params") or {}
        self.n = p.get("n", 100)
        self.cap = p.get("h_max", 100) if self.kind in ("SOO", "StoSOO") else None
        if self.kind == "StoSOO":
            k = p.get("k")
            self.k = k if k is not None else math.ceil(self.n / (math.log(self.n) ** 3))
            d = p.get("delta")
            self.delta = d if d is not None else 1 / math.sqrt(self.n)
        if self.kind == "DOO":
            from .engine import delta_fn
            self.user_delta = delta_fn(p.get("delta"))
        self.scale = 1.0

    # ---- optimistic values from the ledger
    def b_sto(self, node):
        led = _led(self.ctx, node)
        if led is None or not led.list:
            return math.inf
        T = len(led.list)
        m = math.fsum(float(x) for x in led.list) / T
        return m + math.sqrt(math.log(self.n * self.k / self.delta) / (2 * T))

    def doo_delta(self, ps, h):
        if self.user_delta is not None:
            return self.user_delta(h)
        best = -math.inf
        for s in ps.order:
            if s.depth != h or s.parent is None and s is not ps.root:
                continue
            lo, hi = s.node.get_domain()[0]
            c = s.node.get_cpoint()[0]
            best = max(best, (lo - c) ** 2, (hi - c) ** 2)
        return best

    def before_pull(self):
        if self.kind not in ("SOO", "StoSOO", "DOO"):
            return
        self.in_pull = True
        self.sweep_max = -math.inf
        self.sweep_depth = -1
        self.exp_in_pull = 0

    def before_reward(self, p, r):
        self.in_pull = False
        try:
            self.scale = max(self.scale, abs(float(r)))
        except Exception:
            pass

    def before_query(self, final):
        self.in_pull = False

    def on_mc_pre(self, ps, psn, parent, newlayer):
        ctx = self.ctx
        k = self.kind
        if k not in ("SOO", "StoSOO", "DOO") or psn is None:
            return
        if not self.in_pull:
            if ctx.in_call != "construct":
                ctx.fail("C08", "expand-not-leaf", "%s: tree grew outside pull (during %s)" % (k, ctx.in_call))
            return
        h = psn.depth
        if psn.children is not None:
            ctx.fail("C08", "expand-not-leaf", "%s: cell %s is split although it already has children" % (k, psn.name()))
        leaves = [s for s in ps.order if s.children is None and (s.parent is not None or s is ps.root)]
        cnt = _count(ctx, parent)
        if k == "SOO":
            if cnt < 1:
                ctx.fail("C08", "expand-unevaluated", "SOO: cell %s split before it was evaluated" % psn.name())
            if h > self.cap:
                ctx.fail("C08", "beyond-cap", "SOO: cell of depth %d split, depth cap %d" % (h, self.cap))
            for s in leaves:
                if s.depth <= h and _count(ctx, s.node) == 0:
                    ctx.fail("C08", "unevaluated-precedes", "SOO: depth-%d cell split while an unevaluated leaf of depth %d exists" % (h, s.depth))
            mine = _led(ctx, parent).list[-1]
            best = max(_led(ctx, s.node).list[-1] for s in leaves if s.depth == h)
            if mine != best:
                ctx.fail("C08", "not-best-of-depth", "SOO: split leaf of depth %d has reward %r, best leaf of that depth has %r" % (h, mine, best))
            if h <= self.sweep_depth:
                self.sweep_max = -math.inf   # a new top-down sweep has started
                ctx.probes["c08-soo-second-sweep-in-one-pull"] += 1
            elif self.sweep_depth >= 0:
                ctx.probes["c08-soo-sweep-with->=2-expansions"] += 1
            if mine < self.sweep_max:
                ctx.fail("C08", "below-sweep-max", "SOO: split leaf with reward %r after a shallower split with reward %r in the same sweep" % (mine, self.sweep_max))
            self.sweep_max = mine
            self.sweep_depth = h
        elif k == "StoSOO":
            if cnt < self.k:
                ctx.fail("C08", "expand-under-k", "StoSOO: cell split after %d of k=%s evaluations" % (cnt, self.k))
            if h > self.cap:
                ctx.fail("C08", "beyond-cap", "StoSOO: cell of depth %d split, depth cap %d" % (h, self.cap))
            for s in leaves:
                if s.depth <= h and _count(ctx, s.node) == 0:
                    ctx.fail("C08", "unevaluated-precedes", "StoSOO: depth-%d cell split while an unevaluated leaf of depth %d exists" % (h, s.depth))
            mine = self.b_sto(parent)
            best = max(self.b_sto(s.node) for s in leaves if s.depth == h)
            if not ge_tol(mine, best, scale=self.scale):
                ctx.fail("C08", "not-best-of-depth", "StoSOO: split leaf has b=%s, best leaf of depth %d has b=%s" % (fhex(mine), h, fhex(best)))
            if not ge_tol(mine, self.sweep_max, scale=self.scale):
                ctx.fail("C08", "below-sweep-max", "StoSOO: split leaf b=%s below the sweep's b_max=%s" % (fhex(mine), fhex(self.sweep_max)))
            self.sweep_max = max(self.sweep_max, mine)
            if self.exp_in_pull >= 1:
                ctx.probes["c08-stosoo-sweep-with->=2-expansions"] += 1
            ctx.probes["c08-stosoo-k-cap-hit"] += 1
        else:  # DOO
            if cnt < 1:
                ctx.fail("C08", "expand-unevaluated", "DOO: cell %s split before it was evaluated" % psn.name())
            if self.exp_in_pull >= 1:
                ctx.fail("C08", "doo-extra-expansion", "DOO: second expansion within one pull")
            for s in leaves:
                if _count(ctx, s.node) == 0:
                    ctx.fail("C08", "unevaluated-precedes", "DOO: cell split while an unevaluated leaf (depth %d) exists" % s.depth)
            deltas = {}

            def bval(s):
                if s.depth not in deltas:
                    deltas[s.depth] = self.doo_delta(ps, s.depth)
                return float(_led(ctx, s.node).list[-1]) + deltas[s.depth]
            mine = bval(psn)
            best = max(bval(s) for s in leaves)
            sc = max(self.scale, max(abs(v) for v in deltas.values()))
            if not ge_tol(mine, best, scale=sc):
                ctx.fail("C08", "doo-not-max-b", "DOO: split leaf has reward+delta=%s, the best leaf has %s" % (fhex(mine), fhex(best)))
            if any(s.depth > h for s in leaves):
                ctx.probes["c08-doo-expansion-of-non-deepest-leaf"] += 1
        self.exp_in_pull += 1
        ctx.stats["c08-expansions-judged"] += 1

    def after_pull(self, p):
        k = self.kind
        if k not in ("SOO", "StoSOO", "DOO"):
            return
        self.in_pull = False

    def after_reward(self, p, r):
        ctx = self.ctx
        k = self.kind
        if k not in ("SOO", "StoSOO", "DOO"):
            return
        cr = ctx.credit.get(-1)
        if cr is None or cr["target"] is None:
            return
        tgt = cr["target"]
        ps = ctx.top["part"]
        tsn = ps.sn(tgt)
        if tsn is None:
            raise HarnessError("C08: credited cell unknown to the shadow tree")
        cnt = _count(ctx, tgt)
        leaves = [s for s in ps.order if s.children is None and (s.parent is not None or s is ps.root)]
        if tsn.children is not None:
            ctx.fail("C08", "handout-not-first", "%s: the evaluated cell %s is not a leaf" % (k, tsn.name()))
        if k in ("SOO", "DOO"):
            if cnt > 1:
                ctx.fail("C08", "evaluated-twice", "%s: cell %s evaluated %d times" % (k, tsn.name(), cnt))
            if k == "SOO" and tsn.depth > self.cap:
                ctx.fail("C08", "beyond-cap", "SOO: evaluated a cell of depth %d, depth cap %d" % (tsn.depth, self.cap))
            # unevaluated leaves at hand-out time = those still unevaluated now, plus the one just evaluated
            mind = min([s.depth for s in leaves if _count(ctx, s.node) == 0] + [tsn.depth])
            if tsn.depth != mind:
                ctx.fail("C08", "handout-not-first", "%s: evaluated a leaf of depth %d while an unevaluated leaf of depth %d existed" % (k, tsn.depth, mind))
        else:
            if cnt > self.k:
                ctx.fail("C08", "over-k", "StoSOO: cell evaluated %d times, k=%s" % (cnt, self.k))
            if tsn.depth > self.cap:
                ctx.fail("C08", "beyond-cap", "StoSOO: evaluated a cell of depth %d, depth cap %d" % (tsn.depth, self.cap))
            # b-values at hand-out time: take the reward just given back out of the target's ledger
            led = _led(ctx, tgt)
            last = led.list.pop()
            try:
                mine = self.b_sto(tgt)
                best = max(self.b_sto(s.node) for s in leaves if s.depth == tsn.depth)
            finally:
                led.list.append(last)
            if not ge_tol(mine, best, scale=self.scale):
                ctx.fail("C08", "handout-not-max-b", "StoSOO: evaluated leaf had b=%s, best leaf of depth %d had b=%s" % (fhex(mine), tsn.depth, fhex(best)))
            if not ge_tol(mine, self.sweep_max, scale=self.scale):
                ctx.fail("C08", "handout-not-max-b", "StoSOO: evaluated leaf b=%s below the sweep's b_max=%s" % (fhex(mine), fhex(self.sweep_max)))
        ctx.stats["c08-handouts-judged"] += 1


# =========================================================================== C12

class C12(Oracle):
    prop = "C12"

    def __init__(self, ctx):
        super().__init__(ctx)
        n = (ctx.sc.get("params") or {}).get("n", 1000)
        self.n = n
        self.hmax = int(math.floor(n / math.fsum(1.0 / i for i in range(1, n + 1))))
        self.opened = set()
        self.per_depth = {}
        self.cur = None          # [psn, kids, next]
        self.exhausted = False
        self.last_reco = None
        self.max_open_depth = 0

    def on_mc_pre(self, ps, psn, parent, newlayer):
        ctx = self.ctx
        if ctx.algo_name != "SequOOL" or psn is None:
            return
        h = psn.depth
        if self.cur is not None and self.cur[2] < len(self.cur[1]):
            ctx.fail("C12", "children-order", "a new cell is opened before all %d children of the previous one were evaluated" % len(self.cur[1]))
        if id(parent) in self.opened or psn.children is not None:
            ctx.fail("C12", "evaluated-twice", "cell %s opened twice" % psn.name())
        if h > self.hmax:
            ctx.fail("C12", "beyond-h-max", "cell of depth %d opened, h_max=%d" % (h, self.hmax))
        if h < self.max_open_depth:
            ctx.fail("C12", "depth-order", "cell of depth %d opened after one of depth %d" % (h, self.max_open_depth))
        if h > 0:
            led = _led(ctx, parent)
            if led is None or not led.list:
                ctx.fail("C12", "not-best-unopened", "cell %s opened before it was evaluated" % psn.name())
            if self.per_depth.get(h, 0) >= self.hmax // h:
                ctx.fail("C12", "depth-budget", "opening no. %d at depth %d, budget floor(%d/%d)=%d" % (
                    self.per_depth.get(h, 0) + 1, h, self.hmax, h, self.hmax // h))
            cands = [s for s in ps.order if s.depth == h and id(s.node) not in self.opened and s.parent is not None]
            vals = []
            for s in cands:
                l2 = _led(ctx, s.node)
                if l2 is None or not l2.list:
                    ctx.fail("C12", "children-order", "an unopened cell of depth %d has not been evaluated yet" % h)
                vals.append(l2.list[0])
            if led.list[0] != max(vals):
                ctx.fail("C12", "not-best-unopened", "opened cell has reward %r, best unopened cell of depth %d has %r" % (led.list[0], h, max(vals)))
            if len(cands) == 1:
                ctx.probes["c12-depth-advance-by-last-unopened-cell"] += 1
            if self.per_depth.get(h, 0) + 1 == self.hmax // h:
                ctx.probes["c12-depth-advance-by-budget"] += 1
        self.opened.add(id(parent))
        self.per_depth[h] = self.per_depth.get(h, 0) + 1
        self.max_open_depth = max(self.max_open_depth, h)

    def on_mc_post(self, ps, psn, parent, created, newlayer):
        if self.ctx.algo_name != "SequOOL" or psn is None:
            return
        self.cur = [psn, list(created), 0]

    def after_reward(self, p, r):
        ctx = self.ctx
        if ctx.algo_name != "SequOOL":
            return
        cr = ctx.credit.get(-1)
        if cr is None or cr["target"] is None:
            return
        tgt = cr["target"]
        ps = ctx.top["part"]
        root = ps.root.node
        if self.cur is not None and self.cur[2] < len(self.cur[1]):
            want = self.cur[1][self.cur[2]]
            if tgt is not want.node:
                ctx.fail("C12", "children-order", "evaluated cell is not child no. %d of the cell just opened" % self.cur[2])
            if _count(ctx, tgt) != 1:
                ctx.fail("C12", "evaluated-twice", "search cell evaluated %d times" % _count(ctx, tgt))
            self.cur[2] += 1
            if self.exhausted:
                ctx.fail("C12", "after-exhaustion", "search resumed after the schedule was exhausted")
        else:
            # schedule exhausted: pull returns the domain centre, the recommendation is frozen
            if not same_point(p, root.get_cpoint()):
                ctx.fail("C12", "after-exhaustion", "pull after the schedule is exhausted did not return the domain centre")
            if not self.exhausted:
                self.exhausted = True
                ctx.probes["c12-schedule-exhausted"] += 1
                if self.max_open_depth < self.hmax:
                    ctx.fail("C12", "depth-budget", "schedule ended after depth %d although h_max=%d" % (self.max_open_depth, self.hmax))
        ctx.stats["c12-rounds-judged"] += 1

    def after_query(self, p, final):
        if self.ctx.algo_name != "SequOOL":
            return
        if self.exhausted:
            if self.last_reco is not None and not same_point(self.last_reco, p):
                self.ctx.fail("C12", "after-exhaustion", "recommendation changed after the schedule was exhausted")
            self.last_reco = list(p) if isinstance(p, list) else p
            # what the recommendation was when the schedule ended is known from the ledger: a best evaluated search
            # cell; pulls at the domain centre made since then must not have altered it
            ctx = self.ctx
            ps = ctx.top["part"]
            best = None
            pts = []
            for s2 in ps.order:
                if s2.parent is None:
                    continue
                led = _led(ctx, s2.node)
                if led is None or not led.list:
                    continue
                v = led.list[0]
                if best is None or v > best:
                    best = v
                    pts = [s2.node.get_cpoint()]
                elif v == best:
                    pts.append(s2.node.get_cpoint())
            if pts and isinstance(p, list) and not any(same_point(p, q) for q in pts):
                ctx.fail("C12", "after-exhaustion", "after the schedule was exhausted the recommendation is not a best evaluated search cell "
                         "(rewards of the pulls at the domain centre altered it)")

    def on_constructed(self):
        if self.ctx.algo_name != "SequOOL":
            return
        hm = getattr(self.ctx.algo, "h_max", None)
        if hm is not None and hm != self.hmax:
            self.ctx.fail("C12", "h-max", "h_max=%r, floor(n/H_n)=%d" % (hm, self.hmax))


# =========================================================================== C07

class C07(Oracle):
    prop = "C07"

    def __init__(self, ctx):
        super().__init__(ctx)
        self.evals = []    # (node, point, reward) of search evaluations
        self.kind = ctx.algo_name
        self.val = {}      # GPO: learner id -> [point, [validation rewards]]
        self.gpo_last = None
        self.spy_mark = 0

    def after_reward(self, p, r):
        ctx = self.ctx
        k = self.kind
        if k in ("DOO", "SOO", "SequOOL"):
            cr = ctx.credit.get(-1)
            if cr is None or cr["target"] is None:
                return
            tgt = cr["target"]
            if k == "SequOOL" and tgt is ctx.top["part"].root.node:
                return  # post-schedule centre pulls are not search evaluations
            self.evals.append((tgt, list(p), r))
        elif k in ("GPO", "PCT", "VPCT"):
            N, L = gpo_schedule(ctx.top["kw"])
            i = ctx.completed
            if L == 0 or i > 2 * N * L:
                return
            ph = (i - 1) // (2 * L)
            off = (i - 1) % (2 * L)
            if off >= L:
                ent = self.val.setdefault(ph, [list(p), []])
                ent[1].append(float(r))

    def before_query(self, final):
        self.spy_mark = len(self.ctx.spy_log)

    def after_query(self, p, final):
        ctx = self.ctx
        k = self.kind
        if not isinstance(p, list):
            return
        if k in ("DOO", "SOO", "SequOOL"):
            if not self.evals:
                return
            # rewards are compared as they were handed in (exact for Python ints of any size), never through float()
            best = max(r for _, _, r in self.evals)
            mine = [r for _, q, r in self.evals if same_point(q, p)]
            if not mine:
                ctx.fail("C07", "reco-never-evaluated", "%s recommends %s, which is not the point of any evaluated search cell (%d evaluated, best reward %r)" % (
                    k, [fhex(x) for x in p], len(self.evals), best))
            if max(mine) != best:
                ctx.fail("C07", "reco-not-best", "%s recommends a point with reward %r, best evaluated reward is %r" % (k, max(mine), best))
        elif k == "StoSOO":
            ps = ctx.top["part"]
            layer = [s for s in ps.order if s.depth == ps.max_depth and (s.parent is not None or s is ps.root)]
            means = []
            for s in layer:
                m = _mean(ctx, s.node)
                means.append(0.0 if m is None else m)
            best = max(means)
            sc = max([1.0] + [abs(m) for m in means])
            ok_layer = [s for s, m in zip(layer, means) if same_point(s.node.get_cpoint(), p)]
            if not ok_layer:
                ctx.fail("C07", "reco-not-deepest-layer", "StoSOO recommends a point that is the representative of no cell of the deepest level %d" % ps.max_depth)
            if not any(ge_tol(m, best, scale=sc) for s, m in zip(layer, means) if same_point(s.node.get_cpoint(), p)):
                ctx.fail("C07", "reco-not-best", "StoSOO recommends a deepest-level cell with mean %s, the level's best mean is %s" % (
                    fhex(max(m for s, m in zip(layer, means) if same_point(s.node.get_cpoint(), p))), fhex(best)))
        elif k == "StroquOOL":
            ps = ctx.top["part"]
            cands = []
            for s in ps.order:
                led = _led(ctx, s.node)
                if led is not None and led.restarts > 0 and led.list:
                    cands.append((s, math.fsum(float(x) for x in led.list) / len(led.list)))
            if not cands:
                return  # validation not reached: the statement does not constrain the recommendation
            ctx.probes["c07-stroquool-validation-judged"] += 1
            best = max(m for _, m in cands)
            sc = max([1.0] + [abs(m) for _, m in cands])
            mine = [m for s, m in cands if same_point(s.node.get_cpoint(), p)]
            if not mine:
                ctx.fail("C07", "reco-not-candidate", "StroquOOL recommends a point that is not a re-evaluated candidate")
            if not ge_tol(max(mine), best, scale=sc):
                ctx.fail("C07", "reco-not-best", "StroquOOL recommends a candidate with validation mean %s, best is %s" % (fhex(max(mine)), fhex(best)))
        elif k == "POO":
            ev = [e for e in ctx.spy_log[self.spy_mark:] if e[0] == "pull"]
            if len(ev) != 1 or not same_point(ev[0][2], p):
                ctx.fail("C07", "reco-not-best-learner", "POO.get_last_point was served by %d learner pulls" % len(ev))
            scores = self._poo_scores()
            if scores:
                sc = max([1.0] + [abs(x) for x in scores])
                if not ge_tol(scores[ev[0][1]], max(scores), scale=sc):
                    ctx.fail("C07", "reco-not-best-learner", "POO recommends from learner %d (score %s), best score is %s" % (
                        ev[0][1], fhex(scores[ev[0][1]]), fhex(max(scores))))
        elif k in ("GPO", "PCT", "VPCT"):
            N, L = gpo_schedule(ctx.top["kw"])
            if L == 0 or ctx.completed < 2 * N * L:
                return
            ctx.probes["c07-gpo-final-judged"] += 1
            ents = [self.val[i] for i in sorted(self.val)]
            if len(ents) != N or any(len(e[1]) != L for e in ents):
                return  # the schedule itself is off: C09's business
            scores = [math.fsum(e[1]) / len(e[1]) for e in ents]
            best = max(scores)
            sc = max([1.0] + [abs(x) for x in scores])
            mine = [s for e, s in zip(ents, scores) if same_point(e[0], p)]
            if not mine:
                ctx.fail("C07", "reco-not-candidate", "%s recommends a point that was not validated" % k)
            if not ge_tol(max(mine), best, scale=sc):
                ctx.fail("C07", "reco-not-best", "%s recommends a validated point with score %s, best score is %s" % (k, fhex(max(mine)), fhex(best)))
        ctx.stats["c07-recommendations-judged"] += 1

    def _poo_scores(self):
        by = {}
        for e in self.ctx.spy_log:
            if e[0] == "new":
                by.setdefault(e[1], [])
            elif e[0] == "rew":
                by.setdefault(e[1], []).append(float(e[2]))
        return [(math.fsum(v) / len(v) if v else 0.0) for k, v in sorted(by.items())]
