"""C09 (GPO/PCT/VPCT schedule), C10 (POO routing and scores), C11 (Zooming), C13 (VROOM)."""
import math

from .engine import Oracle, HarnessError, close, ge_tol, fhex
from .oracles_tree import same_point, gpo_schedule, _attr, contains, _same_value


# =========================================================================== C09

class C09(Oracle):
    prop = "C09"

    def __init__(self, ctx):
        super().__init__(ctx)
        self.on = ctx.algo_name in ("GPO", "PCT", "VPCT")
        if not self.on:
            return
        kw = ctx.sc.get("params") or {}
        self.N, self.L = gpo_schedule(kw)
        self.numax = kw.get("numax", 1.0)
        self.rhomax = kw.get("rhomax", 0.9)
        self.mark = 0
        self.val = {}       # phase (0-based) -> [point, [rewards]]
        self.last_prop = {}  # learner -> last proposed point
        self.rounds_of = {}
        self.final = None

    def _phase(self, i):
        """(phase index 0-based, offset in phase, exploring?) of round i (1-based); None after the schedule."""
        if self.L == 0 or i > 2 * self.N * self.L:
            return None
        ph = (i - 1) // (2 * self.L)
        off = (i - 1) % (2 * self.L)
        return ph, off, off < self.L

    def before_pull(self):
        if self.on:
            self.mark = len(self.ctx.spy_log)

    def after_pull(self, p):
        if not self.on or self.L == 0:
            return
        ctx = self.ctx
        i = ctx.round
        ev = ctx.spy_log[self.mark:]
        news = [e for e in ev if e[0] == "new"]
        pulls = [e for e in ev if e[0] == "pull"]
        st = self._phase(i)
        if st is None:
            if ev:
                ctx.fail("C09", "learner-rounds", "learner activity after the schedule (round %d > 2NL=%d)" % (i, 2 * self.N * self.L))
            best = self._best()
            if best is not None and not any(same_point(p, q) for q in best):
                ctx.fail("C09", "final-point", "pull after the last phase does not return the validated point with the highest score")
            ctx.probes["c09-post-schedule-pulls"] += 1
            return
        ph, off, exploring = st
        if off == 0:
            if len(news) != 1:
                ctx.fail("C09", "learner-count", "round %d starts phase %d of %d: %d learners constructed (%d so far)" % (
                    i, ph + 1, self.N, len(news), len(ctx.learners)))
            kw = news[0][2]
            want_rho = self.rhomax ** (2 * self.N / (2 * (ph + 1) + 1))
            if not close(float(kw.get("rho", -1)), want_rho) or not close(float(kw.get("nu", -1)), float(self.numax)):
                ctx.fail("C09", "learner-params", "learner %d built with nu=%r rho=%r, schedule says nu=%r rho=%r" % (
                    ph + 1, kw.get("nu"), kw.get("rho"), self.numax, want_rho))
            if news[0][1] != ph:
                ctx.fail("C09", "learner-count", "phase %d is served by learner no. %d" % (ph + 1, news[0][1] + 1))
            ctx.probes["c09-phases-started"] += 1
        elif news:
            ctx.fail("C09", "learner-count", "learner constructed in the middle of phase %d (round %d)" % (ph + 1, i))
        if exploring:
            if len(pulls) != 1 or pulls[0][1] != ph:
                ctx.fail("C09", "learner-rounds", "exploration round %d of phase %d: learner pulls %s" % (off + 1, ph + 1, [e[1] + 1 for e in pulls]))
            if not same_point(pulls[0][2], p):
                ctx.fail("C09", "learner-rounds", "GPO did not return its learner's proposal")
            self.last_prop[ph] = list(p)
        else:
            if pulls:
                ctx.fail("C09", "validation-count", "validation round %d of phase %d: learner %d was pulled" % (off - self.L + 1, ph + 1, pulls[0][1] + 1))
            want = self.last_prop.get(ph)
            if want is None or not same_point(p, want):
                ctx.fail("C09", "validation-point", "validation round of phase %d does not return the learner's last proposed point" % (ph + 1))

    def before_reward(self, p, r):
        if self.on:
            self.mark = len(self.ctx.spy_log)

    def after_reward(self, p, r):
        if not self.on or self.L == 0:
            return
        ctx = self.ctx
        i = ctx.round
        ev = ctx.spy_log[self.mark:]
        rews = [e for e in ev if e[0] == "rew"]
        st = self._phase(i)
        if st is None:
            if rews:
                ctx.fail("C09", "foreign-reward", "reward delivered to a learner after the schedule")
            # the scores stay the means of exactly the validation rewards: rounds left over after the last phase change nothing
            g = ctx.algo if ctx.algo_name == "GPO" else _attr(ctx.algo, "algorithm")
            vr = getattr(g, "V_reward", None)
            if vr is not None and len(self.val) == self.N and len(vr) == self.N:
                for ph, ent in self.val.items():
                    if len(ent[1]) == self.L:
                        m = math.fsum(ent[1]) / len(ent[1])
                        if not close(float(vr[ph]), m, scale=max(abs(x) for x in ent[1])):
                            ctx.fail("C09", "score", "after the schedule (round %d) the score of phase %d is %s, the mean of exactly its %d "
                                     "validation rewards is %s" % (i, ph + 1, fhex(vr[ph]), self.L, fhex(m)))
            return
        ph, off, exploring = st
        if exploring:
            if len(rews) != 1 or rews[0][1] != ph or not _same_value(rews[0][2], r):
                ctx.fail("C09", "foreign-reward" if rews else "learner-rounds",
                         "exploration round %d of phase %d: reward went to learners %s" % (off + 1, ph + 1, [e[1] + 1 for e in rews]))
            self.rounds_of[ph] = self.rounds_of.get(ph, 0) + 1
        else:
            if rews:
                ctx.fail("C09", "foreign-reward", "validation reward of phase %d handed to learner %d (which did not propose in this round)" % (
                    ph + 1, rews[0][1] + 1))
            ent = self.val.setdefault(ph, [list(p), []])
            ent[1].append(float(r))
            g = ctx.algo if ctx.algo_name == "GPO" else _attr(ctx.algo, "algorithm")
            vr = _attr(g, "V_reward")
            m = math.fsum(ent[1]) / len(ent[1])
            if len(vr) != ph + 1 or not close(float(vr[ph]), m, scale=max(abs(x) for x in ent[1])):
                ctx.fail("C09", "score", "phase %d after %d validation rewards: scores %s, mean of exactly those rewards %s" % (
                    ph + 1, len(ent[1]), [fhex(x) for x in vr][-2:], fhex(m)))
            ctx.probes["c09-validation-rounds"] += 1
        if i == 2 * self.N * self.L:
            ctx.probes["c09-schedule-completed"] += 1

    def _best(self):
        if len(self.val) != self.N or any(len(e[1]) != self.L for e in self.val.values()):
            return None
        scores = {ph: math.fsum(e[1]) / len(e[1]) for ph, e in self.val.items()}
        mx = max(scores.values())
        sc = max(1.0, max(abs(x) for x in scores.values()))
        return [self.val[ph][0] for ph, s in scores.items() if ge_tol(s, mx, scale=sc)]

    def after_query(self, p, final):
        if not self.on or self.L == 0:
            return
        ctx = self.ctx
        if ctx.completed >= 2 * self.N * self.L:
            best = self._best()
            if best is None:
                ctx.fail("C09", "validation-count", "all %d rounds of the schedule are over but %d phases were validated" % (
                    2 * self.N * self.L, len(self.val)))
            if not any(same_point(p, q) for q in best):
                ctx.fail("C09", "final-point", "get_last_point after the last phase is not the validated point with the highest score")
            ctx.probes["c09-final-recommendation-judged"] += 1

    def finish(self):
        if not self.on or self.L == 0:
            return
        ctx = self.ctx
        done = ctx.completed
        full = min(self.N, done // (2 * self.L))
        for ph in range(full):
            if self.rounds_of.get(ph, 0) != self.L:
                ctx.fail("C09", "learner-rounds", "learner %d was driven for %d rounds, schedule says %d" % (ph + 1, self.rounds_of.get(ph, 0), self.L))
            if len(self.val.get(ph, [None, []])[1]) != self.L:
                ctx.fail("C09", "validation-count", "phase %d validated %d times, schedule says %d" % (ph + 1, len(self.val.get(ph, [None, []])[1]), self.L))
        rhos = [rec["kw"].get("rho") for rec in ctx.learners]
        if len(set(rhos)) != len(rhos):
            ctx.fail("C09", "learner-params", "two learners share the same rho")
        if done >= 2 * self.N * self.L and len(ctx.learners) != self.N:
            ctx.fail("C09", "N", "%d learners were built, N=%d" % (len(ctx.learners), self.N))


# =========================================================================== C10

class C10(Oracle):
    prop = "C10"

    def __init__(self, ctx):
        super().__init__(ctx)
        self.on = ctx.algo_name == "POO"
        kw = ctx.sc.get("params") or {}
        self.numax = kw.get("numax", 1)
        self.rhomax = kw.get("rhomax", 0.9)
        self.mark = 0
        self.led = {}
        self.rhos = []
        self.who = None
        self.objs = []

    def before_pull(self):
        self.mark = len(self.ctx.spy_log)

    def after_pull(self, p):
        if not self.on:
            return
        ctx = self.ctx
        ev = ctx.spy_log[self.mark:]
        pulls = [e for e in ev if e[0] == "pull"]
        news = [e for e in ev if e[0] == "new"]
        if len(pulls) != 1 or not same_point(pulls[0][2], p) or len(news) > 1 or [e for e in ev if e[0] == "rew"]:
            ctx.fail("C10", "round-learner-count", "POO.pull: %d learner pulls, %d constructions" % (len(pulls), len(news)))
        for e in news:
            kw = e[2]
            rho = kw.get("rho")
            if not _same_value(kw.get("nu"), self.numax) or rho is None or not (0 < rho < self.rhomax):
                ctx.fail("C10", "learner-params", "learner built with nu=%r rho=%r (nu_max=%r, rho_max=%r)" % (kw.get("nu"), rho, self.numax, self.rhomax))
            ex = math.log(rho) / math.log(self.rhomax)
            ok = False
            for kx in range(1, 14):
                Ng = 2 ** kx
                q = (2 * Ng / ex - 1) / 2
                if abs(q - round(q)) < 1e-6 and 0 <= round(q) < Ng:
                    ok = True
            if not ok:
                ctx.fail("C10", "rho-not-on-grid", "rho=%r is not rho_max^(2N/(2i+1)) for a power of two N and 0<=i<N" % rho)
            if any(abs(rho - x) <= 1e-15 for x in self.rhos):
                ctx.fail("C10", "rho-duplicate", "rho=%r used by two learners" % rho)
            self.rhos.append(rho)
            self.led[e[1]] = []
            if e[1] != len(self.rhos) - 1:
                ctx.fail("C10", "population-shrunk", "learner ids are not consecutive")
        if news and len(self.rhos) > 2:
            ctx.probes["c10-second-creation-burst"] += 1
        if not news and len(self.rhos) >= 2:
            ctx.probes["c10-round-robin-rounds"] += 1
        self.who = pulls[0][1]

    def before_reward(self, p, r):
        self.mark = len(self.ctx.spy_log)

    def after_reward(self, p, r):
        if not self.on:
            return
        ctx = self.ctx
        ev = ctx.spy_log[self.mark:]
        rews = [e for e in ev if e[0] == "rew"]
        if len(rews) != 1 or rews[0][1] != self.who or not _same_value(rews[0][2], r) or [e for e in ev if e[0] != "rew"]:
            ctx.fail("C10", "reward-misrouted", "round served by learner %r; reward delivered to %s" % (self.who, [e[1] for e in rews]))
        self.led[self.who].append(float(r))
        a = ctx.algo
        V = _attr(a, "V_reward")
        Tm = _attr(a, "Times")
        Va = _attr(a, "V_algo")
        if len(V) != len(self.rhos) or len(Tm) != len(self.rhos) or len(Va) != len(self.rhos):
            ctx.fail("C10", "population-shrunk", "population size %d/%d/%d, learners constructed %d" % (len(Va), len(V), len(Tm), len(self.rhos)))
        for j, rec in enumerate(ctx.learners):
            if Va[j] is not rec["obj"]:
                ctx.fail("C10", "population-shrunk", "population slot %d no longer holds learner %d" % (j, j))
        for j in range(len(self.rhos)):
            h = self.led[j]
            if Tm[j] != len(h):
                ctx.fail("C10", "times", "learner %d: recorded count %r, rewards received %d" % (j, Tm[j], len(h)))
            m = math.fsum(h) / len(h) if h else 0.0
            sc = max([1.0] + [abs(x) for x in h])
            if not close(float(V[j]), m, scale=sc):
                ctx.fail("C10", "score", "learner %d: score %s, mean of its %d rewards %s" % (j, fhex(V[j]), len(h), fhex(m)))
        ctx.stats["c10-rounds-judged"] += 1

    def before_query(self, final):
        self.mark = len(self.ctx.spy_log)

    def after_query(self, p, final):
        if not self.on:
            return
        ctx = self.ctx
        ev = ctx.spy_log[self.mark:]
        if len(ev) != 1 or ev[0][0] != "pull" or not same_point(ev[0][2], p):
            ctx.fail("C10", "reco-learner", "get_last_point caused learner events %s" % [(e[0], e[1]) for e in ev][:4])
        sc = [(math.fsum(self.led[j]) / len(self.led[j]) if self.led[j] else 0.0) for j in range(len(self.rhos))]
        scale = max([1.0] + [abs(x) for x in sc])
        if not ge_tol(sc[ev[0][1]], max(sc), scale=scale):
            ctx.fail("C10", "reco-learner", "recommendation taken from learner %d (score %s), best score %s" % (ev[0][1], fhex(sc[ev[0][1]]), fhex(max(sc))))
        ctx.probes["c10-recommendations-judged"] += 1


# =========================================================================== C11

def exact_tie(ph, pulls, nu, rho, depth, rad, thr):
    """8*phase/(2+pulls) == (nu*rho^depth)^2 as rational numbers, and both float evaluations are exact."""
    from fractions import Fraction
    if rad != thr or depth > 200:
        return False
    try:
        lhs = Fraction(8 * ph, 2 + pulls)
        t = Fraction(nu) * Fraction(rho) ** depth
        return lhs == t * t and Fraction(thr) == t and Fraction(rad) ** 2 == lhs
    except (OverflowError, ValueError):
        return False


def zoom_phase(t):
    ph = 1
    end = 2
    while t >= end:
        ph += 1
        end += 2 ** ph
    return ph


class C11(Oracle):
    prop = "C11"

    def __init__(self, ctx):
        super().__init__(ctx)
        self.on = ctx.algo_name == "Zooming"
        kw = ctx.sc.get("params") or {}
        self.nu = float(kw.get("nu", 1))
        self.rho = float(kw.get("rho", 0.9))
        self.refined = []
        self.in_reward = False
        self.pre_cell = None
        self.arm = None

    def _led(self, arm):
        z = getattr(self.ctx, "zoom_ledger", None) or {}
        led = z.get(id(arm))
        return led.list if led is not None else []

    def on_constructed(self):
        if self.on:
            self.invariants()

    def after_pull(self, p):
        if not self.on:
            return
        ctx = self.ctx
        a = ctx.algo
        act = _attr(a, "active_points")
        done = ctx.completed
        ph = zoom_phase(done)
        idx = {}
        hit = None
        scale = 1.0
        for arm in act:
            h = [float(x) for x in self._led(arm)]
            m = math.fsum(h) / len(h) if h else 0.0
            if h:
                scale = max(scale, max(abs(x) for x in h))
            idx[id(arm)] = m + 2 * math.sqrt(8 * ph / (2 + len(h)))
            if same_point(arm.get_point(), p):
                if hit is None or idx[id(arm)] > idx[id(hit)]:
                    hit = arm
        if hit is None:
            ctx.fail("C11", "index-not-max", "pull returned a point that is not an active arm")
        mx = max(idx.values())
        if not ge_tol(idx[id(hit)], mx, scale=scale):
            ctx.fail("C11", "index-not-max", "played arm has index %s, the maximum over %d active arms is %s (phase %d)" % (
                fhex(idx[id(hit)]), len(idx), fhex(mx), ph))
        self.arm = hit
        self.pull_idx = idx
        self.pull_max = mx
        self.pull_scale = scale
        self.pull_cells = {id(arm): cell for arm, cell in act.items()}

    def before_reward(self, p, r):
        self.in_reward = True
        self.refined = []

    def on_mc_post(self, ps, psn, parent, created, newlayer):
        if self.on and self.in_reward:
            self.refined.append((psn, parent, created))
        elif self.on and self.ctx.algo is not None:
            self.ctx.fail("C11", "multiple-refinements", "partition grew outside receive_reward (during %s)" % self.ctx.in_call)

    def after_reward(self, p, r):
        if not self.on:
            return
        ctx = self.ctx
        self.in_reward = False
        a = ctx.algo
        act = _attr(a, "active_points")
        if self.arm is None:
            return
        # the arm actually played = the one whose statistics recorded the reward (C04); several arms may share a point
        cr = ctx.credit.get(-1)
        arm = cr["target"] if cr is not None and cr.get("target") is not None else self.arm
        if id(arm) not in self.pull_idx:
            ctx.fail("C11", "index-not-max", "the arm that recorded the reward was not active when pull was called")
        if not ge_tol(self.pull_idx[id(arm)], self.pull_max, scale=self.pull_scale):
            ctx.fail("C11", "index-not-max", "played arm had index %s, the maximum was %s" % (fhex(self.pull_idx[id(arm)]), fhex(self.pull_max)))
        self.pre_cell = self.pull_cells[id(arm)]
        if len(self.refined) > 1:
            ctx.fail("C11", "multiple-refinements", "%d cells refined in one round" % len(self.refined))
        cell = self.pre_cell
        pulls = len(self._led(arm))
        if _attr(a, "pulled_times").get(arm) != pulls:
            ctx.fail("C11", "arm-stats", "pull count of the played arm is %r, its reward history has %d entries" % (a.pulled_times.get(arm), pulls))
        done = ctx.completed
        thr = self.nu * self.rho ** cell.get_depth()
        dec = set()
        for ph in {zoom_phase(done - 1), zoom_phase(done)}:
            rad = math.sqrt(8 * ph / (2 + pulls))
            if exact_tie(ph, pulls, self.nu, self.rho, cell.get_depth(), rad, thr):
                dec.add(True)       # radius == nu*rho^depth exactly (in rational arithmetic and in floats): "dropped to" holds
                ctx.probes["c11-radius-meets-threshold-exactly"] += 1
            elif close(rad, thr):
                dec |= {True, False}
            else:
                dec.add(rad <= thr)
        grew = len(self.refined) == 1
        if grew not in dec:
            ctx.fail("C11", "refined-too-early" if grew else "refined-too-late",
                     "arm with %d pulls in a depth-%d cell: radius %s vs nu*rho^depth %s, %s" % (
                         pulls, cell.get_depth(), fhex(math.sqrt(8 * zoom_phase(done) / (2 + pulls))), fhex(thr),
                         "refined" if grew else "not refined"))
        if grew:
            psn, parent, created = self.refined[0]
            if parent is not cell:
                ctx.fail("C11", "refined-too-early", "the refined cell is not the cell of the arm just played")
            kids = [c.node for c in created]
            keeper = act.get(arm)
            if keeper is None or not any(keeper is k for k in kids):
                ctx.fail("C11", "child-without-arm", "after the refinement the played arm is not attached to one of the new children")
            on_face = sum(1 for k in kids if contains(k, arm.get_point()))
            if on_face > 1:
                ctx.probes["c11-arm-on-shared-face"] += 1
            for k in kids:
                if k is keeper:
                    continue
                mine = [am for am, c in act.items() if c is k]
                if not any(same_point(am.get_point(), k.get_cpoint()) for am in mine):
                    ctx.fail("C11", "child-without-arm", "a child of the refined cell that does not keep the old arm has no arm at its centre")
            ctx.probes["c11-refinements-judged"] += 1
        self.invariants()
        ctx.stats["c11-rounds-judged"] += 1

    def invariants(self):
        ctx = self.ctx
        a = ctx.algo
        act = _attr(a, "active_points")
        ps = ctx.top["part"]
        cells = set()
        for arm, cell in act.items():
            if not contains(cell, arm.get_point()):
                ctx.fail("C11", "arm-outside-cell", "an active arm lies outside the cell it is responsible for")
            cells.add(id(cell))
        for n in ctx.reachable(ps):
            if n.get_children():
                continue
            y = n
            ok = False
            while y is not None:
                if id(y) in cells:
                    ok = True
                    break
                y = y.get_parent()
            if not ok:
                sn = ps.sn(n)
                ctx.fail("C11", "coverage", "leaf %s (depth %d) is covered by no active arm" % (sn.name() if sn else "?", n.get_depth()))


# =========================================================================== C13

class C13(Oracle):
    prop = "C13"

    def __init__(self, ctx):
        super().__init__(ctx)
        self.on = ctx.algo_name == "VROOM"
        kw = ctx.sc.get("params") or {}
        self.n = kw.get("n", 100)
        self.sd = int(math.floor(math.log2(self.n)))
        b = kw.get("b", 1.0)
        fm = kw.get("f_max", 1.0)
        self.delta = 4 * b / (fm * math.sqrt(self.n))
        self.C = math.fsum(1.0 / (h * l) for h in range(1, self.sd + 1) for l in range(1, 2 ** h + 1))
        self.hcap = min(kw.get("h_max", 100), self.n)

    def lcb(self, node):
        led = self.ctx.ledger.get(id(node))
        if led is None or not led.list:
            return -math.inf
        h = [float(x) for x in led.list]
        return math.fsum(h) / len(h) - math.sqrt(math.log(4 * self.n ** 3 / self.delta) / (2 * len(h)))

    def after_pull(self, p):
        if not self.on:
            return
        ctx = self.ctx
        info = getattr(ctx, "vroom", None)
        if info is None:
            raise HarnessError("C13 needs C04 armed (designated cell)")
        part = ctx.top["part"].part
        nl = part.get_node_list()
        scale = 1.0
        for led in ctx.ledger.values():
            if led.list:
                scale = max(scale, abs(float(led.list[-1])))
        probs = info["p"]
        k = 0
        for h in range(1, self.sd + 1):
            layer = nl[h] if h < len(nl) else []
            if len(layer) != 2 ** h:
                # binary-child partitions only (the check's generator guarantees it): the ranked depths are 1..floor(log2 n)
                ctx.fail("C13", "rank-permutation", "depth %d of the ranking range 1..floor(log2 %d)=%d holds %d cells, not 2^%d" % (
                    h, self.n, self.sd, len(layer), h))
            ranks = [x.get_rank()[-1] for x in layer]
            if sorted(ranks) != list(range(1, 2 ** h + 1)):
                ctx.fail("C13", "rank-permutation", "ranks at depth %d are not a permutation of 1..%d" % (h, 2 ** h))
            byrank = sorted(layer, key=lambda x: x.get_rank()[-1])
            prev = None
            for x in byrank:
                v = self.lcb(x)
                if prev is not None and not ge_tol(prev, v, scale=scale):
                    ctx.fail("C13", "rank-order", "depth %d: a cell with lower confidence value %s is ranked before one with %s" % (h, fhex(prev), fhex(v)))
                prev = v
            for x in layer:
                want = 1.0 / (h * x.get_rank()[-1] * self.C)
                if probs is None or k >= len(probs) or abs(probs[k] - want) > 1e-12:
                    ctx.fail("C13", "probability", "cell of depth %d rank %d is drawn with probability %r, rule says %r" % (
                        h, x.get_rank()[-1], None if probs is None or k >= len(probs) else probs[k], want))
                k += 1
        if abs(math.fsum(probs) - 1.0) > 1e-9:
            ctx.fail("C13", "normalisation", "probabilities sum to %r" % math.fsum(probs))
        drawn = info["drawn"]
        if drawn is None:
            ctx.fail("C13", "probability", "the draw is not over the cells of depths 1..%d: %s" % (self.sd, info.get("error")))
        if not isinstance(p, list) or not contains(drawn, p):
            ctx.fail("C13", "point-outside-drawn-cell", "returned point does not lie in the drawn cell (depth %d)" % drawn.get_depth())
        if drawn.get_depth() > self.hcap:
            ctx.probes["c13-draw-below-depth-cap"] += 1
        if ctx.top["part"].max_depth > self.sd:
            ctx.probes["c13-cells-below-ranking-depth"] += 1
        ctx.stats["c13-pulls-judged"] += 1
