"""C04 (reward ledger / exactly-once crediting), C05 (optimistic index and path of
T-HOO / HCT / VHCT), C06 (growth rule of the tree bandits).

C04 builds ctx.ledger, which the other oracles read; it must be armed before them."""
import math

from .engine import Oracle, HarnessError, close, ge_tol, ceil_set, fhex, _plist

TREE_KINDS = ("T_HOO", "HCT", "VHCT")
WRAPPERS = ("POO", "GPO", "PCT", "VPCT")
MINVAR = 1e-3


def tplus(x):
    """next power of two >= x (x >= 1)."""
    x = int(x)
    if x <= 1:
        return 1.0
    return float(1 << ((x - 1).bit_length()))


def pvar(h):
    m = math.fsum(h) / len(h)
    return math.fsum((x - m) ** 2 for x in h) / len(h)


def var_matches(got, hist):
    """Population variance floored at 1e-3.  The tolerance is that of a numerically sound evaluation (two-pass or
    Welford): a few hundred ulps of  scale * sqrt(var), not of scale^2 - the one-pass E[x^2]-mean^2 formula, which
    cancels when the rewards ride on a large constant, is outside it."""
    v = pvar(hist)
    scale = max(abs(x) for x in hist) if hist else 0.0
    tol = 1e-9 * max(v, MINVAR) + 400 * 2.220446049250313e-16 * max(scale, 1.0) * math.sqrt(max(v, 0.0)) + 1e-300
    want = max(v, MINVAR)
    if abs(got - want) <= tol:
        return True
    # at the floor: either side of it within tolerance
    return abs(v - MINVAR) <= tol and abs(got - MINVAR) <= tol


def same_point(a, b):
    return isinstance(a, list) and isinstance(b, list) and len(a) == len(b) and all(float(x) == float(y) for x, y in zip(a, b))


def contains(node, p):
    return all(float(lo) <= float(x) <= float(hi) for x, (lo, hi) in zip(p, node.get_domain()))


class Led:
    __slots__ = ("list", "count", "restarts")

    def __init__(self):
        self.list = []
        self.count = 0
        self.restarts = 0


def _attr(n, name):
    try:
        return getattr(n, name)
    except AttributeError:
        raise HarnessError("node attribute %r named in the property anchors is gone" % name)


def ev_tree(n):
    return (n.get_visited_times(), len(_attr(n, "rewards")))


def ev_soo(n):
    return (bool(_attr(n, "visited")), n.get_reward())


def ev_seq(n):
    return (len(_attr(n, "rewards")),)


def ev_vroom(n):
    return (len(_attr(n, "reward")),)


EVIDENCE = {"T_HOO": ev_tree, "HCT": ev_tree, "VHCT": ev_tree, "StoSOO": ev_tree, "StroquOOL": ev_tree,
            "SOO": ev_soo, "DOO": ev_soo, "SequOOL": ev_seq, "VROOM": ev_vroom}
SINGLE = ("HCT", "VHCT", "StoSOO", "SequOOL", "StroquOOL")


class C04(Oracle):
    prop = "C04"
    FULL_EVERY = 37
    lenient = False   # Ledger (below): only identify the credited cell and build the ledger, judge nothing else

    def __init__(self, ctx):
        super().__init__(ctx)
        self.snap = {}       # agent id -> {id(node): evidence}
        self.psnap = {}      # agent id -> snapshot taken before the pull (SOO/DOO/StroquOOL)
        self.flipped = {}    # agent id -> cell whose visited flag flipped during the last pull
        self.terminated = set()
        self.spy_mark = 0
        self.zoom = None
        self.val_rewards = []
        self.gpo_phase_scores = 0
        self.top_pull_events = None

    # ------------------------------------------------------------------ helpers
    def led(self, node):
        led = self.ctx.ledger.get(id(node))
        if led is None:
            led = self.ctx.ledger[id(node)] = Led()
        return led

    def _snapshot(self, ag):
        ps = ag["part"]
        ev = EVIDENCE[ag["kind"]]
        return {id(n): (ev(n), n) for n in self.ctx.reachable(ps)}

    def name(self, ag, node):
        sn = ag["part"].sn(node)
        return sn.name() if sn is not None else "<cell unknown to the partition>"

    # ------------------------------------------------------------------ agent events
    def ag_before_pull(self, ag):
        k = ag["kind"]
        if k in ("SOO", "DOO", "StroquOOL") and ag["part"] is not None:
            self.psnap[ag["id"]] = self._snapshot(ag)

    def ag_after_pull(self, ag, p):
        k = ag["kind"]
        ctx = self.ctx
        if k in ("SOO", "DOO") and ag["part"] is not None:
            before = self.psnap.pop(ag["id"], {})
            now = self._snapshot(ag)
            fl = []
            for key, (ev, n) in now.items():
                b = before.get(key)
                was = b[0][0] if b is not None else False
                if ev[0] and not was:
                    fl.append(n)
                if b is not None and ev[1] != b[0][1] and not (ev[1] != ev[1] and b[0][1] != b[0][1]):
                    ctx.fail("C04", "credit-set", "%s: stored reward of cell %s changed during pull" % (k, self.name(ag, n)))
            if len(fl) > 1:
                ctx.fail("C04", "credit-set", "%s: %d cells marked evaluated by one pull" % (k, len(fl)))
            self.flipped[ag["id"]] = fl[0] if fl else None
        elif k == "StroquOOL" and ag["part"] is not None:
            before = self.psnap.pop(ag["id"], {})
            now = self._snapshot(ag)
            restarted = 0
            for key, (ev, n) in now.items():
                b = before.get(key)
                if b is None or b[0] == ev:
                    continue
                led = self.led(n)
                # the documented exception: the reward list of a final candidate restarts when validation begins
                if ev[1] == 0 and ev[0] == b[0][0] and led.restarts == 0:
                    led.list = []
                    led.restarts += 1
                    restarted += 1
                    continue
                ctx.fail("C04", "credit-set", "StroquOOL: evidence of cell %s changed during pull (%r -> %r)" % (self.name(ag, n), b[0], ev))
            if restarted:
                ctx.probes["stroquool-validation-restart"] += 1

    def ag_before_reward(self, ag, r):
        if ag["part"] is not None and ag["kind"] in EVIDENCE:
            self.snap[ag["id"]] = self._snapshot(ag)

    def ag_after_reward(self, ag, r):
        k = ag["kind"]
        if ag["part"] is None or k not in EVIDENCE:
            return
        ctx = self.ctx
        before = self.snap.pop(ag["id"], None)
        if before is None:
            return
        now = self._snapshot(ag)
        p = ag["last_point"]
        lost = [key for key in before if key not in now]
        if lost:
            nlost = sum(before[key][0][0] if isinstance(before[key][0][0], int) and not isinstance(before[key][0][0], bool) else 0 for key in lost)
            ctx.fail("C04", "conservation", "%s: %d cells (holding %d credited rewards) became unreachable from the root during receive_reward" % (
                k, len(lost), nlost))
        changed = [n for key, (ev, n) in now.items() if key in before and before[key][0] != ev and not _nan_same(before[key][0], ev)]
        fresh_changed = [n for key, (ev, n) in now.items() if key not in before and _nonzero(ev)]
        if fresh_changed:
            ctx.fail("C04", "credit-set", "%s: a cell created in this round already holds evidence" % k)
        credit = {"agent": ag, "target": None, "cells": [], "reward": r, "point": p}
        if k in SINGLE:
            self._single(ag, k, changed, before, now, p, r, credit)
        elif k == "T_HOO":
            self._hoo(ag, changed, before, now, p, r, credit)
        elif k in ("SOO", "DOO"):
            self._soo(ag, k, changed, before, now, p, r, credit)
        elif k == "VROOM":
            self._vroom(ag, changed, before, now, p, r, credit)
        ctx.credit[ag["id"]] = credit
        ctx.stats["c04-rounds-diffed"] += 1
        self.conservation(ag)
        if (ag["rounds"] % self.FULL_EVERY) == 0:
            self.full_compare(ag)

    # ------------------------------------------------------------------ per-family rules
    def _appended(self, ag, n, before, r, what):
        """cell n must have gained exactly the reward r."""
        ctx = self.ctx
        b = before[id(n)][0]
        rewards = _attr(n, "rewards") if ag["kind"] != "VROOM" else _attr(n, "reward")
        led = self.led(n)
        if self.lenient and ag["kind"] in ("T_HOO", "HCT", "VHCT"):
            # infrastructure mode for the tree bandits: the credited cell is known, so the ledger records the truth of the
            # history whatever the library stored (a truncated or rewritten reward list then shows where C05 / C06 look:
            # in the mean inside U, in the pull count against the threshold)
            if len(rewards) != len(led.list) + 1 or not _same_value(rewards[-1], r):
                ctx.stats["ledger-library-stored-differently"] += 1
            led.list.append(r)
            led.count += 1
            return
        if len(rewards) != len(led.list) + 1:
            ctx.fail("C04", "credit-value", "%s: %s holds %d rewards after this round, history says %d" % (
                ag["kind"], what, len(rewards), len(led.list) + 1))
        if not _same_value(rewards[-1], r):
            ctx.fail("C04", "credit-value", "%s: %s recorded %r, reward handed in was %r" % (ag["kind"], what, rewards[-1], r))
        if ag["kind"] not in ("SequOOL", "VROOM"):
            if n.get_visited_times() != b[0] + 1:
                ctx.fail("C04", "credit-value", "%s: count of %s went %r -> %r" % (ag["kind"], what, b[0], n.get_visited_times()))
        led.list.append(r)
        led.count += 1
        # the changed cell's whole list against the history
        if len(rewards) != len(led.list) or any(not _same_value(a, b2) for a, b2 in zip(rewards, led.list)):
            ctx.fail("C04", "ledger-list", "%s: reward list of %s differs from the rewards credited to it" % (ag["kind"], what))
        self._moments(ag, n, led, what)

    def _moments(self, ag, n, led, what):
        if self.lenient:
            return
        ctx = self.ctx
        k = ag["kind"]
        if k in ("T_HOO", "HCT", "VHCT", "StoSOO") and led.list:
            m = math.fsum(float(x) for x in led.list) / len(led.list)
            scale = max(abs(float(x)) for x in led.list)
            if not close(float(n.get_mean_reward()), m, scale=scale):
                ctx.fail("C04", "ledger-mean", "%s: mean of %s is %s, history gives %s" % (k, what, fhex(n.get_mean_reward()), fhex(m)))
            if k == "VHCT":
                if not var_matches(float(_attr(n, "variance")), [float(x) for x in led.list]):
                    ctx.fail("C04", "ledger-variance", "VHCT: variance of %s is %s, history gives %s" % (
                        what, fhex(n.variance), fhex(max(pvar([float(x) for x in led.list]), MINVAR))))

    def _single(self, ag, k, changed, before, now, p, r, credit):
        ctx = self.ctx
        if k == "StroquOOL" and not changed:
            # the algorithm has finished its schedule ("just passes"); it may not resume
            if not getattr(ag["obj"], "end", False):
                ctx.fail("C04", "credit-set", "StroquOOL: reward of round %d recorded nowhere although the schedule is not over" % ag["rounds"])
            self.terminated.add(ag["id"])
            ctx.probes["stroquool-terminated"] += 1
            return
        if ag["id"] in self.terminated:
            ctx.fail("C04", "credit-set", "%s: crediting resumed after the schedule had ended" % k)
        if self.lenient and (len(changed) != 1 or not same_point(changed[0].get_cpoint(), p)):
            # infrastructure mode: the library booked this reward somewhere else than on the cell it handed out.  The
            # ledger follows the truth of the history (the reward was observed at the point returned by pull) whenever
            # that cell is unambiguous; where the library booked it is C04's own business.
            cands = [n for key, (ev, n) in now.items() if same_point(n.get_cpoint(), p)]
            if len(cands) == 1:
                led = self.led(cands[0])
                led.list.append(r)
                led.count += 1
                credit["target"] = cands[0]
                credit["cells"] = [cands[0]]
                ctx.stats["ledger-library-booked-elsewhere"] += 1
                return
        if len(changed) != 1:
            ctx.fail("C04", "credit-set", "%s: %d cells changed in one round (%s), expected exactly the pulled one" % (
                k, len(changed), ",".join(self.name(ag, n) for n in changed[:4])))
        c = changed[0]
        if not same_point(c.get_cpoint(), p):
            ctx.fail("C04", "credit-set", "%s: reward went to cell %s whose representative is not the point returned by pull" % (k, self.name(ag, c)))
        self._appended(ag, c, before, r, "cell " + self.name(ag, c))
        credit["target"] = c
        credit["cells"] = [c]

    def _hoo(self, ag, changed, before, now, p, r, credit):
        ctx = self.ctx
        if not changed:
            ctx.fail("C04", "credit-set", "T_HOO: no cell recorded the reward")
        deepest = max(changed, key=lambda n: n.get_depth())
        chain = []
        y = deepest
        while y is not None:
            chain.append(y)
            y = y.get_parent()
        if {id(n) for n in changed} != {id(n) for n in chain}:
            ctx.fail("C04", "credit-set", "T_HOO: changed cells {%s} are not a cell and all its ancestors" % ",".join(
                sorted(self.name(ag, n) for n in changed)))
        if not same_point(deepest.get_cpoint(), p):
            ctx.fail("C04", "credit-set", "T_HOO: deepest credited cell %s does not have the returned point as representative" % self.name(ag, deepest))
        for n in chain:
            self._appended(ag, n, before, r, "cell " + self.name(ag, n))
        credit["target"] = deepest
        credit["cells"] = chain

    def _soo(self, ag, k, changed, before, now, p, r, credit):
        ctx = self.ctx
        target = self.flipped.get(ag["id"])
        if target is None:
            cands = [n for key, (ev, n) in now.items() if same_point(n.get_cpoint(), p)]
            if len(cands) == 1:
                target = cands[0]
            elif len(changed) == 1:
                target = changed[0]
        for n in changed:
            if n is not target:
                if self.lenient:
                    # as infrastructure the ledger records the truth of the history (this reward belongs to the point
                    # that was returned); where the library booked it is C04's own business
                    ctx.stats["ledger-library-booked-elsewhere"] += 1
                    continue
                ctx.fail("C04", "credit-set", "%s: stored reward of cell %s changed, but it is not the cell handed out" % (k, self.name(ag, n)))
        if target is None:
            ctx.stats["c04-soo-target-unknown"] += 1
            return
        if not same_point(target.get_cpoint(), p):
            ctx.fail("C04", "credit-set", "%s: cell marked evaluated (%s) is not the one whose representative was returned" % (k, self.name(ag, target)))
        if not _same_value(target.get_reward(), r) and not self.lenient:
            ctx.fail("C04", "credit-value", "%s: cell %s stores %r, reward handed in was %r" % (k, self.name(ag, target), target.get_reward(), r))
        led = self.led(target)
        led.list.append(r)
        led.count += 1
        credit["target"] = target
        credit["cells"] = [target]

    def _vroom(self, ag, changed, before, now, p, r, credit):
        ctx = self.ctx
        ch = ctx.seam.last_choice
        algo = ag["obj"]
        n_budget = ag["kw"].get("n", 100)
        sd = int(math.floor(math.log2(n_budget)))
        hcap = min(ag["kw"].get("h_max", 100), n_budget)
        drawn = self.vroom_drawn
        if drawn is None:
            if self.lenient:
                return
            raise HarnessError("VROOM: no np.random.choice outcome recorded for this round")
        if not changed:
            ctx.fail("C04", "credit-set", "VROOM: no cell recorded the reward")
        ids = {id(n) for n in changed}
        if id(drawn) not in ids:
            ctx.fail("C04", "credit-set", "VROOM: the drawn cell %s did not record the reward" % self.name(ag, drawn))
        chain = [drawn]
        cur = drawn
        while True:
            kids = cur.get_children()
            nxt = [c for c in (kids or []) if id(c) in ids]
            if not nxt:
                break
            if len(nxt) > 1:
                ctx.fail("C04", "credit-set", "VROOM: two children of %s were credited" % self.name(ag, cur))
            cur = nxt[0]
            chain.append(cur)
        if len(chain) != len(changed):
            ctx.fail("C04", "credit-set", "VROOM: %d cells changed, only %d lie on one descending path below the drawn cell" % (len(changed), len(chain)))
        want = max(0, hcap - drawn.get_depth()) + 1
        if len(chain) != want:
            ctx.fail("C04", "credit-set", "VROOM: %d cells credited below a depth-%d draw, depth cap %d dictates %d" % (
                len(chain), drawn.get_depth(), hcap, want))
        for n in chain:
            if not contains(n, p):
                ctx.fail("C04", "credit-set", "VROOM: credited cell %s does not contain the returned point" % self.name(ag, n))
            self._appended(ag, n, before, r, "cell " + self.name(ag, n))
        credit["target"] = drawn
        credit["cells"] = chain

    vroom_drawn = None

    # ------------------------------------------------------------------ top-level hooks
    def on_constructed(self):
        ctx = self.ctx
        if ctx.algo_name == "Zooming":
            self.zoom = {}
        self.spy_mark = len(ctx.spy_log)

    def before_pull(self):
        self.spy_mark = len(self.ctx.spy_log)

    def after_pull(self, p):
        ctx = self.ctx
        name = ctx.algo_name
        self.top_pull_events = ctx.spy_log[self.spy_mark:]
        if name == "VROOM":
            ch = ctx.seam.last_choice
            part = ctx.top["part"].part
            nl = part.get_node_list()
            n_budget = ctx.top["kw"].get("n", 100)
            sd = int(math.floor(math.log2(n_budget)))
            cells = [x for h in range(1, sd + 1) if h < len(nl) for x in nl[h]]
            if ch is None or ch["n"] != len(cells):
                # the draw was not over the cells of depths 1..floor(log2 n): the designated cell cannot be identified
                self.vroom_drawn = None
                ctx.vroom = {"drawn": None, "p": ch["p"] if ch else None, "cells": cells,
                             "error": "np.random.choice over %s items, depths 1..%d hold %d cells" % (ch["n"] if ch else None, sd, len(cells))}
                if not self.lenient:
                    ctx.fail("C04", "credit-set", "VROOM: the drawn cell cannot be identified (%s)" % ctx.vroom["error"])
            else:
                self.vroom_drawn = cells[ch["index"]]
                ctx.vroom = {"drawn": self.vroom_drawn, "p": ch["p"], "cells": cells}
        if name in WRAPPERS and not self.lenient:
            pulls = [e for e in self.top_pull_events if e[0] == "pull"]
            if name == "POO":
                if len(pulls) != 1 or not same_point(pulls[0][2], p):
                    ctx.fail("C04", "route-learner", "POO.pull was served by %d learner pulls" % len(pulls))

    def before_reward(self, p, r):
        self.spy_mark = len(self.ctx.spy_log)
        if self.ctx.algo_name == "Zooming":
            a = self.ctx.algo
            self.zsnap = {id(arm): (arm, _attr(a, "pulled_times")[arm], _attr(a, "average_rewards")[arm]) for arm in _attr(a, "active_points")}

    def after_reward(self, p, r):
        ctx = self.ctx
        name = ctx.algo_name
        if name == "Zooming":
            self._zooming(p, r)
        elif name in WRAPPERS:
            self._wrapper(name, p, r)

    def _zooming(self, p, r):
        ctx = self.ctx
        a = ctx.algo
        pulled = _attr(a, "pulled_times")
        avg = _attr(a, "average_rewards")
        changed = []
        for key, (arm, n0, m0) in self.zsnap.items():
            if arm not in pulled:
                ctx.fail("C04", "conservation", "Zooming: an arm with %d pulls was dropped" % n0)
            if pulled[arm] != n0 or avg[arm] != m0:
                changed.append(arm)
        for arm in pulled:
            if id(arm) not in self.zsnap and (pulled[arm] != 0 or avg[arm] != 0):
                ctx.fail("C04", "credit-set", "Zooming: a new arm starts with evidence")
        if len(changed) != 1:
            ctx.fail("C04", "credit-set", "Zooming: %d arms changed in one round" % len(changed))
        arm = changed[0]
        if not same_point(arm.get_point(), p):
            ctx.fail("C04", "credit-set", "Zooming: the arm that recorded the reward is not the one played")
        led = self.zoom.setdefault(id(arm), Led())
        led.list.append(r)
        led.count += 1
        if pulled[arm] != led.count:
            ctx.fail("C04", "credit-value", "Zooming: pull count %r, history says %d" % (pulled[arm], led.count))
        m = math.fsum(float(x) for x in led.list) / led.count
        if not close(float(avg[arm]), m, scale=max(abs(float(x)) for x in led.list)):
            ctx.fail("C04", "ledger-mean", "Zooming: arm mean %s, history gives %s" % (fhex(avg[arm]), fhex(m)))
        tot = sum(pulled[arm2] for arm2 in pulled)
        if tot != ctx.completed:
            ctx.fail("C04", "conservation", "Zooming: pull counts sum to %d after %d rounds" % (tot, ctx.completed))
        ctx.credit[-1] = {"agent": ctx.top, "target": arm, "cells": [arm], "reward": r, "point": p}
        ctx.zoom_ledger = self.zoom

    def _wrapper(self, name, p, r):
        if self.lenient:
            return
        ctx = self.ctx
        ev = ctx.spy_log[self.spy_mark:]
        rews = [e for e in ev if e[0] == "rew"]
        others = [e for e in ev if e[0] != "rew"]
        pulls = [e for e in (self.top_pull_events or []) if e[0] == "pull"]
        if others:
            ctx.fail("C04", "route-extra", "%s.receive_reward made learner calls other than receive_reward" % name)
        if pulls:
            who = pulls[-1][1]
            if len(rews) != 1 or rews[0][1] != who or not _same_value(rews[0][2], r):
                ctx.fail("C04", "route-learner", "%s: round served by learner %d, reward delivered to %s" % (
                    name, who, [e[1] for e in rews] or "nobody"))
            self.val_rewards = []
        else:
            # GPO validation round (no learner proposed the point)
            if name == "POO":
                ctx.fail("C04", "route-learner", "POO: round served by no learner")
            if rews:
                ctx.fail("C04", "route-learner", "%s: reward of a validation round handed to learner %d" % (name, rews[0][1]))
            g = ctx.algo if name == "GPO" else _attr(ctx.algo, "algorithm")
            N, L = gpo_schedule(ctx.top["kw"])
            if ctx.completed > 2 * N * L:
                # the schedule is over ("just passes"): nothing has to be recorded
                ctx.probes["gpo-rounds-after-schedule"] += 1
                return
            vr = _attr(g, "V_reward")
            # "the score of the point being validated": every pull of a validation block returns one and the same point, and
            # it is the point the score under update belongs to (V_x[-1])
            if not self.val_rewards:
                self.val_point = p
            elif not same_point(self.val_point, p):
                ctx.fail("C04", "validation-point", "%s: validation round %d of the block evaluated %s, the block started on %s; the reward "
                         "is booked on one score" % (name, len(self.val_rewards) + 1, _plist(p), _plist(self.val_point)))
            vx = getattr(g, "V_x", None)
            if isinstance(vx, list) and vx and isinstance(vx[-1], list) and not same_point(vx[-1], p):
                ctx.fail("C04", "validation-point", "%s: the reward of the evaluation of %s is booked on the score of %s" % (
                    name, _plist(p), _plist(vx[-1])))
            self.val_rewards.append(r)
            m = math.fsum(float(x) for x in self.val_rewards) / len(self.val_rewards)
            if not vr or not close(float(vr[-1]), m, scale=max(abs(float(x)) for x in self.val_rewards)):
                ctx.fail("C04", "validation-score", "%s: score of the point under validation is %s after %d validation rewards with mean %s" % (
                    name, fhex(vr[-1]) if vr else None, len(self.val_rewards), fhex(m)))
            ctx.probes["gpo-validation-rounds"] += 1

    # ------------------------------------------------------------------ whole-tree comparisons
    def conservation(self, ag):
        if self.lenient:
            return
        ctx = self.ctx
        k = ag["kind"]
        if k not in EVIDENCE or ag["part"] is None:
            return
        if k == "VROOM":
            return
        nodes = ctx.reachable(ag["part"])
        done = ag["rounds"]
        if k in ("HCT", "VHCT", "StoSOO", "StroquOOL"):
            tot = sum(n.get_visited_times() for n in nodes)
            if ag["id"] in self.terminated:
                return
            if tot != done:
                ctx.fail("C04", "conservation", "%s: visit counts of the tree sum to %d after %d rounds" % (k, tot, done))
        elif k == "SequOOL":
            tot = sum(len(n.rewards) for n in nodes)
            if tot != done:
                ctx.fail("C04", "conservation", "SequOOL: %d recorded rewards after %d rounds" % (tot, done))
        elif k == "T_HOO":
            root = ag["part"].root.node
            if root.get_visited_times() != done:
                ctx.fail("C04", "conservation", "T_HOO: root count %d after %d rounds" % (root.get_visited_times(), done))
        elif k in ("SOO", "DOO"):
            tot = sum(1 for n in nodes if n.visited)
            if tot != done and not ctx.stats.get("c04-soo-target-unknown"):
                ctx.fail("C04", "conservation", "%s: %d cells marked evaluated after %d rounds" % (k, tot, done))

    def full_compare(self, ag):
        if self.lenient:
            return
        ctx = self.ctx
        k = ag["kind"]
        if k not in EVIDENCE or ag["part"] is None:
            return
        nodes = ctx.reachable(ag["part"])
        reach = {id(n) for n in nodes}
        for sn in ag["part"].order:
            led = ctx.ledger.get(id(sn.node))
            if led is not None and led.count and id(sn.node) not in reach:
                ctx.fail("C04", "conservation", "%s: cell %s holding %d rewards is no longer reachable from the root" % (k, sn.name(), led.count))
        for n in nodes:
            led = ctx.ledger.get(id(n))
            what = "cell " + self.name(ag, n)
            if k in ("SOO", "DOO"):
                if led is not None and led.list and not _same_value(n.get_reward(), led.list[-1]):
                    ctx.fail("C04", "ledger-list", "%s: %s stores %r, history says %r" % (k, what, n.get_reward(), led.list[-1]))
                if (led is None or not led.list) and n.visited and not ctx.stats.get("c04-soo-target-unknown") and n is not self.flipped.get(ag["id"]):
                    ctx.fail("C04", "ledger-list", "%s: %s is marked evaluated but no reward was ever credited to it" % (k, what))
                continue
            rewards = _attr(n, "rewards") if k != "VROOM" else _attr(n, "reward")
            want = led.list if led is not None else []
            if len(rewards) != len(want) or any(not _same_value(a, b) for a, b in zip(rewards, want)):
                ctx.fail("C04", "ledger-list", "%s: %s holds %d rewards, history credited %d (or values differ)" % (k, what, len(rewards), len(want)))
            if k in ("T_HOO", "HCT", "VHCT", "StoSOO", "StroquOOL"):
                cnt = led.count if led is not None else 0
                if n.get_visited_times() != cnt:
                    ctx.fail("C04", "ledger-list", "%s: %s count %r, history says %d" % (k, what, n.get_visited_times(), cnt))
            if led is not None:
                self._moments(ag, n, led, what)
            if k == "T_HOO" and n.get_children():
                s = sum(c.get_visited_times() for c in n.get_children())
                own = n.get_visited_times() - s
                if own < 0:
                    ctx.fail("C04", "conservation", "T_HOO: %s count %d < sum of its children %d" % (what, n.get_visited_times(), s))
        ctx.stats["c04-full-compares"] += 1

    def finish(self):
        ctx = self.ctx
        if ctx.top is not None and ctx.top["part"] is not None:
            self.full_compare(ctx.top)
            self.conservation(ctx.top)
        for rec in ctx.learners:
            if rec["part"] is not None:
                self.full_compare(rec)
                self.conservation(rec)


class Ledger(C04):
    """C04 armed as infrastructure for another property's check: it identifies the credited
    cell(s) and keeps the ledger; means, variances, conservation, whole-tree comparisons and
    wrapper routing are not judged here (they are C04's own check's business)."""
    lenient = True


def gpo_schedule(kw):
    """Reference (reward-independent) GPO schedule: number of learners N and half phase length L."""
    n = kw.get("rounds", 1000)
    rhomax = kw.get("rhomax", 0.9)
    Dmax = math.log(2) / math.log(1 / rhomax)
    v = 0.5 * Dmax * math.log((n / 2) / math.log(n / 2))
    N = int(math.ceil(v))
    L = int(math.floor(n / (2 * N)))
    return N, L


def _same_value(a, b):
    try:
        if a == b:
            return True
        return a != a and b != b
    except Exception:
        return False


def _nan_same(a, b):
    return all(_same_value(x, y) for x, y in zip(a, b)) and len(a) == len(b)


def _nonzero(ev):
    for x in ev:
        if isinstance(x, bool):
            if x:
                return True
        elif isinstance(x, (int,)):
            if x:
                return True
    return False


# =========================================================================== C05

def _leaf(n):
    return n.get_children() is None


def thoo_bounds(n, nu, rho, v):
    """Admissible values of ceil((ln(n)/2 - ln(1/nu)) / ln(1/rho)).  When the real number is an integer k *exactly*
    (sqrt(n) * nu == rho^-k in rational arithmetic) and no floating-point evaluation of the formula lands above k,
    the bound is k and nothing else; otherwise a value within 1e-9 of an integer admits both neighbours."""
    from fractions import Fraction
    out = ceil_set(v)
    k = round(v)
    if len(out) > 1 and abs(k) <= 60:
        try:
            lhs = Fraction(int(n)) * Fraction(nu) ** 2
            rhs = Fraction(rho) ** (-2 * k)
            if lhs == rhs:
                import numpy as _np
                v2 = float((_np.log(n) / 2 - _np.log(1 / nu)) / _np.log(1 / rho))
                if v <= k and v2 <= k:
                    return {float(k)}
        except (ZeroDivisionError, OverflowError, ValueError):
            pass
    return out


class TreeOracleBase(Oracle):
    """Shared per-agent parameter handling for C05 / C06."""

    def params(self, ag):
        kw = ag["kw"]
        k = ag["kind"]
        nu = float(kw.get("nu", 1))
        rho = float(kw.get("rho", 0.5))
        out = {"nu": nu, "rho": rho}
        if k == "T_HOO":
            out["n"] = kw.get("rounds", 1000)
        else:
            out["c"] = float(kw.get("c", 0.1))
            out["delta"] = float(kw.get("delta", 0.01))
            out["c1"] = (rho / (3 * nu)) ** (1.0 / 8)
            if k == "VHCT":
                out["bound"] = float(kw.get("bound", 1))
        return out

    def hist(self, n):
        led = self.ctx.ledger.get(id(n))
        return led.list if led is not None else []

    def dtilde(self, P, t, cap):
        return min(cap, P["c1"] * P["delta"] / tplus(t))

    def taus(self, ag, P, n, m, hist=None, extra_hist=None):
        """Admissible thresholds of cell n when m rounds are complete (HCT / VHCT)."""
        h = n.get_depth()
        if h == 0:
            return {0.0}
        out = set()
        for t in (m + 1, m + 2):
            for cap in (0.5, 1.0):
                dt = self.dtilde(P, t, cap)
                base = P["c"] ** 2 * math.log(1 / dt) * P["rho"] ** (-2 * h) / P["nu"] ** 2
                if ag["kind"] == "HCT":
                    out |= ceil_set(base)
                else:
                    for hh in (hist, extra_hist):
                        if hh is None:
                            continue
                        V = max(pvar([float(x) for x in hh]), MINVAR) if hh else MINVAR
                        b = P["bound"]
                        fac = V + 3 * b * P["nu"] * P["rho"] ** h + V * math.sqrt(1 + 6 * b * P["nu"] * P["rho"] ** h / V)
                        out |= ceil_set(fac * base)
        return out


class C05(TreeOracleBase):
    prop = "C05"

    def __init__(self, ctx):
        super().__init__(ctx)
        self.adm = {}
        self.lastupd = {}   # agent id -> {id(node): set of admissible t values}
        self.P = {}

    def ag_after_pull(self, ag, p):
        if ag["kind"] not in TREE_KINDS or ag["part"] is None:
            return
        ctx = self.ctx
        P = self.P.get(ag["id"])
        if P is None:
            P = self.P[ag["id"]] = self.params(ag)
        m = ag["rounds"]
        root = ag["part"].root.node
        frontier = [root]
        adm = []
        steps = 0
        while frontier:
            x = frontier.pop()
            steps += 1
            if steps > 20000:
                raise HarnessError("C05: admissible-path search exploded")
            ch = x.get_children()
            if ag["kind"] == "T_HOO":
                conts = {ch is not None}
            else:
                conts = set()
                if ch is None:
                    conts.add(False)
                else:
                    for tv in self.taus(ag, P, x, m, self.hist(x)):
                        conts.add(x.get_visited_times() >= tv)
            if False in conts:
                adm.append(x)
            if True in conts:
                bs = [y.get_b_value() for y in ch]
                mx = max(bs)
                if mx != mx:
                    raise HarnessError("C05: NaN B-value")
                frontier.extend(y for y, b in zip(ch, bs) if b == mx)
        if len(adm) > 1:
            ctx.probes["c05-admissible-set-ambiguous"] += 1
        if not any(same_point(x.get_cpoint(), p) for x in adm):
            clause = "stop-rule" if any(self._on_max_path(root, x) for x in self._cells_with_point(ag, p)) else "path-not-max-B"
            ctx.fail("C05", clause, "%s round %d: returned point is the representative of none of the %d cells the optimistic descent can stop at" % (
                ag["kind"], m + 1, len(adm)))
        self.adm[ag["id"]] = adm
        if any(not _leaf(x) for x in adm):
            ctx.probes["c05-stop-at-internal-cell-admissible"] += 1

    def _cells_with_point(self, ag, p):
        return [n for n in self.ctx.reachable(ag["part"]) if same_point(n.get_cpoint(), p)]

    def _on_max_path(self, root, x):
        """x is reachable from the root by max-B steps only (ignoring the stop rule)."""
        y = x
        while y.get_parent() is not None:
            par = y.get_parent()
            bs = [c.get_b_value() for c in par.get_children()]
            if y.get_b_value() != max(bs):
                return False
            y = par
        return y is root

    def ag_after_reward(self, ag, r):
        if ag["kind"] not in TREE_KINDS or ag["part"] is None:
            return
        ctx = self.ctx
        P = self.P.get(ag["id"]) or self.params(ag)
        cr = ctx.credit.get(ag["id"])
        adm = self.adm.pop(ag["id"], None)
        if cr is None or cr["target"] is None or adm is None:
            return
        tgt = cr["target"]
        if not any(x is tgt for x in adm):
            ctx.fail("C05", "path-not-max-B", "%s: the credited cell is not one the optimistic descent can stop at" % ag["kind"])
        if not _leaf_before(ag, tgt, ctx) and ag["kind"] != "T_HOO":
            ctx.probes["c05-pulled-internal-cell"] += 1
        i = ag["rounds"]       # index of the round just completed (1-based)
        lu = self.lastupd.setdefault(ag["id"], {})
        nodes = ctx.reachable(ag["part"])
        if ag["kind"] != "T_HOO":
            if i == tplus(i):
                for n in nodes:
                    lu[id(n)] = {i, i + 1}
                if len(nodes) >= 4 and i >= 2:
                    ctx.probes["c05-refresh-round-with->=3-cells"] += 1
            lu[id(tgt)] = {i, i + 1}
        scale = 1.0
        for n in nodes:
            if n.get_depth() == 0:
                continue
            h = self.hist(n)
            u = n.get_u_value()
            if not h:
                if u != math.inf:
                    ctx.fail("C05", "U-unvisited-finite", "%s: unvisited cell has U=%r" % (ag["kind"], u))
            else:
                hf = [float(x) for x in h]
                mean = math.fsum(hf) / len(hf)
                sc = max(1.0, max(abs(x) for x in hf))
                T = len(hf)
                ok = False
                if ag["kind"] == "T_HOO":
                    want = [mean + math.sqrt(2 * math.log(P["n"]) / T) + P["nu"] * P["rho"] ** n.get_depth()]
                else:
                    want = []
                    for t in lu.get(id(n), {i, i + 1}):
                        dt = self.dtilde(P, t, 1.0)
                        if ag["kind"] == "HCT":
                            w = P["c"] * math.sqrt(math.log(1 / dt) / T)
                        else:
                            V = max(pvar(hf), MINVAR)
                            w = math.sqrt(2 * P["c"] ** 2 * V * math.log(1 / dt) / T) + 3 * P["bound"] * P["c"] ** 2 * math.log(1 / dt) / T
                        want.append(mean + P["nu"] * P["rho"] ** n.get_depth() + w)
                for w in want:
                    if close(float(u), w, scale=sc):
                        ok = True
                if not ok:
                    ctx.fail("C05", "U-value", "%s: cell at depth %d with %d pulls has U=%s; the published index gives %s" % (
                        ag["kind"], n.get_depth(), T, fhex(u), "/".join(fhex(w) for w in want)))
            ch = n.get_children()
            b = n.get_b_value()
            if ch is None:
                if b != u:
                    ctx.fail("C05", "B-leaf", "%s: leaf has B=%r, U=%r" % (ag["kind"], b, u))
            else:
                wantb = min(u, max(c.get_b_value() for c in ch))
                if b != wantb:
                    ctx.fail("C05", "B-internal", "%s: internal cell has B=%r, min(U, max child B)=%r" % (ag["kind"], b, wantb))
        ctx.stats["c05-rounds-rederived"] += 1
        ctx.stats["c05-cells-rederived"] += len(nodes)


def _leaf_before(ag, tgt, ctx):
    sn = ag["part"].sn(tgt)
    if sn is None:
        return True
    if sn.children is None:
        return True
    # split during this very round?
    exps = ag["part"].expansions
    return bool(exps) and exps[-1][0] is sn and exps[-1][2] == ctx.round and ctx.in_call == "receive_reward"


# =========================================================================== C06

class C06(TreeOracleBase):
    prop = "C06"

    def __init__(self, ctx):
        super().__init__(ctx)
        self.exp = {}      # part serial -> list of (psn, created) in the current receive_reward
        self.in_reward = {}
        self.pre = {}
        self.P = {}

    def _agent_of(self, ps):
        if ps.owner is not None:
            return ps.owner
        return self.ctx.top

    def on_mc_pre(self, ps, psn, parent, newlayer):
        ctx = self.ctx
        ag = self._agent_of(ps)
        if ag is None:
            # during construction of the top-level algorithm
            return
        if ag["kind"] not in TREE_KINDS:
            return
        if psn is not None and psn.children is not None:
            ctx.fail("C06", "expansion-of-internal", "%s: cell %s already has children and is split again" % (ag["kind"], psn.name()))
        if not self.in_reward.get(ag["id"]):
            if ag.get("constructed"):
                ctx.fail("C06", "expansion-not-at-pulled", "%s: tree grew outside receive_reward (during %s)" % (ag["kind"], ctx.in_call))

    def on_mc_post(self, ps, psn, parent, created, newlayer):
        ag = self._agent_of(ps)
        if ag is None or ag["kind"] not in TREE_KINDS:
            return
        if self.in_reward.get(ag["id"]):
            self.exp.setdefault(ag["id"], []).append((psn, created))

    def ag_before_reward(self, ag, r):
        if ag["kind"] not in TREE_KINDS or ag["part"] is None:
            return
        self.in_reward[ag["id"]] = True
        self.exp[ag["id"]] = []

    def ag_after_reward(self, ag, r):
        if ag["kind"] not in TREE_KINDS or ag["part"] is None:
            return
        ctx = self.ctx
        self.in_reward[ag["id"]] = False
        exps = self.exp.pop(ag["id"], [])
        P = self.P.get(ag["id"])
        if P is None:
            P = self.P[ag["id"]] = self.params(ag)
        cr = ctx.credit.get(ag["id"])
        if cr is None or cr["target"] is None:
            return
        tgt = cr["target"]
        if len(exps) > 1:
            ctx.fail("C06", "multiple-expansions", "%s: %d cells split in one round" % (ag["kind"], len(exps)))
        grew = len(exps) == 1
        tsn = ag["part"].sn(tgt)
        if grew:
            psn, created = exps[0]
            if psn is None or psn.node is not tgt:
                ctx.fail("C06", "expansion-not-at-pulled", "%s: split cell %s is not the cell just pulled (%s)" % (
                    ag["kind"], psn.name() if psn else "?", tsn.name() if tsn else "?"))
            for c in created:
                n = c.node
                if n.get_visited_times() != 0 or n.get_u_value() != math.inf or n.get_b_value() != math.inf:
                    ctx.fail("C06", "new-cell-state", "%s: new cell starts with count %r, U %r, B %r" % (
                        ag["kind"], n.get_visited_times(), n.get_u_value(), n.get_b_value()))
        was_leaf = (tsn is None) or tsn.children is None or (grew and exps[0][0] is tsn and tsn.expansions == 1)
        h = tgt.get_depth()
        if ag["kind"] == "VHCT":
            # the threshold is scaled by the variance recorded for the cell: it has to be that of the cell's history
            if not var_matches(float(_attr(tgt, "variance")), [float(x) for x in self.hist(tgt)]):
                ctx.fail("C06", "tau-variance", "VHCT: the variance that scales the threshold of the pulled cell is %s, its reward history gives %s" % (
                    fhex(tgt.variance), fhex(max(pvar([float(x) for x in self.hist(tgt)]), MINVAR))))
        if ag["kind"] == "T_HOO":
            v = (math.log(P["n"]) / 2 - math.log(1 / P["nu"])) / math.log(1 / P["rho"])
            bounds = thoo_bounds(P["n"], P["nu"], P["rho"], v)
            dec = {was_leaf and h <= b for b in bounds}
            if grew not in dec:
                ctx.fail("C06", "expanded-too-late" if not grew else "expanded-too-early",
                         "T_HOO: pulled leaf at depth %d, truncation depth %s, %s" % (h, sorted(bounds), "expanded" if grew else "not expanded"))
            if not grew:
                ctx.probes["c06-thoo-truncation-reached"] += 1
            maxb = max(bounds)
            if ag["part"].max_depth > max(1, maxb + 1):
                ctx.fail("C06", "depth-bound", "T_HOO: tree depth %d exceeds truncation depth %s + 1" % (ag["part"].max_depth, maxb))
        else:
            i = ag["rounds"]  # the round just completed
            hist_after = self.hist(tgt)
            hist_before = hist_after[:-1]
            cnt = len(hist_after)
            dec = set()
            for tv in self.taus(ag, P, tgt, i - 1, hist_before, hist_after):
                dec.add(was_leaf and cnt >= tv)
            if grew not in dec:
                ctx.fail("C06", "expanded-too-early" if grew else "expanded-too-late",
                         "%s: pulled cell at depth %d (leaf=%s) has %d pulls, thresholds %s, %s" % (
                             ag["kind"], h, was_leaf, cnt, sorted(self.taus(ag, P, tgt, i - 1, hist_before, hist_after))[:4],
                             "split" if grew else "not split"))
            if len(dec) > 1:
                ctx.probes["c06-decision-ambiguous"] += 1
            if not was_leaf:
                ctx.probes["c06-pulled-internal-cell-not-resplit"] += 1
        if grew:
            ctx.probes["c06-expansions-judged"] += 1
        ctx.stats["c06-rounds-judged"] += 1
