"""Raw-partition driver: seeded interleavings of deepen() and make_children(leaf)."""
import copy

from . import engine
from .engine import Ctx, Seam, RunResult, Violation, Watchdog, SimHang, pyxab_site, signature


def run_raw(sc, oracle_classes, judged=None, want_explicit=True):
    ctx = Ctx(sc)
    res = RunResult()
    seam = Seam(sc["rng"])
    ctx.seam = seam
    wd = Watchdog.get()
    viol = None
    done = 0
    seam.install()
    try:
        try:
            domain = engine.build_domain(sc)
            ctx.user_domain = domain
            ctx.domain_copy = copy.deepcopy(domain)
            for oc in oracle_classes:
                ctx.oracles.append(oc(ctx))

            def call(op, fn, *a, **kw):
                ctx.in_call = op
                wd.start(lambda: ctx.nnodes)
                try:
                    try:
                        return fn(*a, **kw)
                    finally:
                        wd.stop()
                        ctx.in_call = None
                except SimHang:
                    raise Violation("C01", "hang", "step budget exceeded in %s" % op, site=op)
                except (Violation, engine.HarnessError):
                    raise
                except Exception as e:
                    site = pyxab_site(e.__traceback__)
                    if site is None:
                        raise
                    raise Violation("C01", "raise", "%s in %s: %s" % (type(e).__name__, op, str(e)[:120]),
                                    site="%s:%s" % (type(e).__name__, site))

            factory = ctx.partition_factory(sc["partition"])
            part = call("construct", factory, domain=domain)
            ctx.algo = part
            ps = ctx.parts[0]
            ctx.log("construct-raw", sc["partition"]["cls"])
            for o in ctx.oracles:
                o.on_constructed()
                o.after_call("construct")
            K = None
            other = {}
            for k, op in enumerate(sc["ops"][: sc["rounds"]]):
                ctx.round = k + 1
                if op[0] == "other":
                    # the neighbour fault for raw partitions: another partition of the same class, of dimension op[1], on its own
                    # box, lives in the same process and splits a cell now and then (state kept outside the instances shows here)
                    d2 = int(op[1])
                    if d2 not in other:
                        other[d2] = call("neighbour-construct", engine.plain_partition(sc["partition"]),
                                         domain=[[-1.0 - j, 2.5 + j] for j in range(d2)])
                    o2 = other[d2]
                    leaves2 = [n for layer in o2.get_node_list() for n in layer if n.get_children() is None]
                    if leaves2 and sum(len(layer) for layer in o2.get_node_list()) < 400:
                        n2 = leaves2[min(int(op[2] * len(leaves2)), len(leaves2) - 1)]
                        call("neighbour-make_children", o2.make_children, n2, newlayer=(n2.get_depth() >= o2.get_depth()))
                        ctx.stats["raw:neighbour-partition-splits"] += 1
                    ctx.completed = k + 1
                    done = k + 1
                    continue
                if op[0] == "deepen":
                    layer = [s for s in ps.order if s.depth == ps.max_depth]
                    partial = any(s.children is not None for s in ps.order if s.depth == ps.max_depth - 1) and \
                        any(s.children is None for s in ps.order if s.depth == ps.max_depth - 1)
                    est = len(layer) * (len(ps.root.children) if ps.root.children else 8)
                    if ctx.nnodes + est > sc.get("max_cells", 3000):
                        ctx.stats["raw:deepen-skipped-size"] += 1
                        continue
                    if partial:
                        ctx.probes["raw:deepen-after-partial-layer"] += 1
                    call("deepen", part.deepen)
                    ctx.stats["raw:deepen"] += 1
                else:
                    leaves = [s for s in ps.order if s.children is None]
                    if op[0] == "deepest":
                        leaves = [s for s in leaves if s.depth == ps.max_depth]
                    elif op[0] == "shallowest":
                        m = min(s.depth for s in leaves)
                        leaves = [s for s in leaves if s.depth == m]
                    elif op[0] == "chain":
                        # the deepest leaf on the high-index side (or low-index side): long chains, labels grow like K^depth
                        leaves = [s for s in leaves if s.depth == ps.max_depth]
                        leaves = [max(leaves, key=lambda q: int(q.node.get_index()))] if op[1] >= 0.5 else \
                            [min(leaves, key=lambda q: int(q.node.get_index()))]
                    s = leaves[min(int(op[1] * len(leaves)), len(leaves) - 1)]
                    if s.depth < ps.max_depth:
                        ctx.probes["raw:expand-non-deepest-leaf"] += 1
                    if ctx.nnodes > sc.get("max_cells", 3000):
                        continue
                    # the documented callers' rule for newlayer
                    call("make_children", part.make_children, s.node, newlayer=(s.depth >= part.get_depth()))
                    ctx.stats["raw:make_children"] += 1
                ctx.completed = k + 1
                for o in ctx.oracles:
                    o.after_call(op[0])
                done = k + 1
            for o in ctx.oracles:
                o.finish()
        except Violation as v:
            viol = v
    finally:
        seam.uninstall()
    res.rounds = ctx.completed
    res.stats = ctx.stats
    res.probes = ctx.probes
    res.fired = seam.fired
    res.fired["rng-calls"] = seam.calls
    res.fired["neighbour-partition"] = ctx.stats.get("raw:neighbour-partition-splits", 0)
    res.sites = seam.sites
    res.digest = ctx.digest()
    res.cells = ctx.nnodes
    res.max_steps = wd.max_seen
    res.shape = ctx.parts[0].shape_hash() if ctx.parts and ctx.parts[0].root is not None else 0
    if viol is not None:
        info = {"property": viol.prop, "clause": viol.clause, "algo": "RAW:" + sc["partition"]["cls"], "site": viol.site,
                "detail": viol.detail, "round": ctx.round}
        info["signature"] = signature(info)
        if judged is None or viol.prop in judged:
            res.violation = info
        else:
            res.foreign = info
    if want_explicit:
        ex = copy.deepcopy(sc)
        ex["rng"] = seam.explicit_spec()
        if viol is not None:
            ex["rounds"] = ctx.round
        res.explicit = ex
    return res


def shrink_ops(sc):
    out = []
    if sc.get("algo") != "RAW":
        return out
    ops = sc["ops"][: sc["rounds"]]
    n = len(ops)
    size = max(1, n // 2)
    while size >= 1:
        for start in range(0, n - size + 1, size):
            c = copy.deepcopy(sc)
            c["ops"] = ops[:start] + ops[start + size:]
            c["rounds"] = len(c["ops"])
            out.append(c)
        if size == 1:
            break
        size //= 2
    for k, op in enumerate(ops):
        if op[0] not in ("deepen", "other") and op[1] != 0.0:
            c = copy.deepcopy(sc)
            c["ops"] = [list(o) for o in ops]
            c["ops"][k][1] = 0.0
            c["rounds"] = n
            out.append(c)
    return out[:80]
