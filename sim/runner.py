"""Sharded batch runner, minimiser, replay, known-finding matching, evidence writer."""
import os
import sys
import json
import time
import copy
import random
import collections
import subprocess
import faulthandler
import warnings
import multiprocessing
from concurrent.futures import ProcessPoolExecutor, as_completed

from . import engine
from .engine import H

VERIF = os.path.dirname(os.path.dirname(os.path.abspath(__file__)))
EVIDENCE_DIR = os.path.join(VERIF, "evidence")
REPLAY_DIR = os.path.join(VERIF, "replays")
FINDINGS_FILE = os.path.join(VERIF, "known_findings.json")

CLASSICAL_FAULTS_NA = ["message-loss", "message-duplication", "message-reordering", "network-partition",
                       "crash-restart", "torn-write", "disk-error", "clock-skew(wall)", "failing-syscall", "thread-preemption"]


COMMON_SPACE = (" || Common to all families: boxes of dimension 1-3 (7% of runs: 4 or 5) mixing unit, shifted, negative, dyadic, "
                "zero-straddling non-dyadic ([-0.7, 0.4]), large-offset (1e6) and narrow (1e-3) sides, written with float or int bounds and, "
                "for cubes, also as [[lo, hi]] * d (shared rows); partitions Binary, RandomBinary, DimensionBinary, K-ary and RandomK-ary "
                "with K in 2..5 (6% of K-ary runs: 6..8); budgets half round numbers, half arbitrary integers; "
                "reward programs constant / zero / negative / integer-tied / Gaussian / objective / late maximum / alternating sign / few "
                "levels / monotone-to-a-corner / decaying / ramp / Bernoulli / scores, scaled by 1e6, 1e-9 or -1, riding on offsets up to "
                "1e8, typed float / int / bool / np.float64 / np.bool_ / np.uint8 / np.int8 / np.int16 / np.int64 (and, for DOO/SOO/SequOOL, exact "
                "Python integers around +-2^60); np.random owned by the simulator (randint, uniform, choice, random, rand: scripted policies "
                "with forced end-point, first/last/least-likely outcomes, or the real generator under a logged seed); get_last_point "
                "interjected between rounds and between a pull and its reward where that is a read; a neighbour instance of the same class "
                "built before and stepped between the rounds of the instance under test.  Every run executes in its own forked child.")


def registry():
    from . import checks
    return checks.CHECKS


# --------------------------------------------------------------------------- known findings

def load_findings():
    if not os.path.exists(FINDINGS_FILE):
        return {"findings": [], "fixed": []}
    with open(FINDINGS_FILE) as f:
        return json.load(f)


def _arity(sc):
    p = sc["partition"]
    if p["cls"] == "DimensionBinaryPartition":
        return 2 ** len(sc["domain"])
    return p.get("K", 2)


def where_holds(where, sc):
    """Predicate over a scenario; every key must hold."""
    params = sc.get("params") or {}
    for k, v in (where or {}).items():
        if k == "param_lt":
            if not all(name in params and params[name] is not None and params[name] < x for name, x in v.items()):
                return False
        elif k == "param_ge":
            if not all(name in params and params[name] is not None and params[name] >= x for name, x in v.items()):
                return False
        elif k == "param_set":
            if not all(params.get(name) is not None for name in v):
                return False
        elif k == "param_unset":
            if not all(params.get(name) is None for name in v):
                return False
        elif k == "arity_ne":
            if _arity(sc) == v:
                return False
        elif k == "arity_eq":
            if _arity(sc) != v:
                return False
        elif k == "partition_in":
            if sc["partition"]["cls"] not in v:
                return False
        elif k == "meta":
            m = sc.get("meta") or {}
            if not all(m.get(a) == b for a, b in v.items()):
                return False
        elif k == "derived":
            from . import checks
            if not all(checks.derived(sc).get(a) == b for a, b in v.items()):
                return False
        else:
            raise engine.HarnessError("unknown where-key %r in known_findings.json" % k)
    return True


def match_finding(info, sc, findings):
    for f in findings["findings"]:
        if f["property"] != info["property"] or f["clause"] != info["clause"]:
            continue
        if f.get("algo") and f["algo"] != info["algo"] and f["algo"] != info["algo"].split(":")[0]:
            continue
        if f.get("site") and not (info.get("site") or "").startswith(f["site"]):
            continue
        if where_holds(f.get("where"), sc):
            return f
    return None


# --------------------------------------------------------------------------- one run (by index)

def run_index(prop, tier, seed, i):
    chk = registry()[prop]
    rs = H(seed, prop, tier, i)
    sc = chk.generate_indexed(i, random.Random(H(rs, "config")), rs, tier)
    res = run_isolated(chk, sc)
    return sc, res


def _abridge(sc):
    """Scenario as written into the evidence file: long lists are cut (the run index regenerates the full form)."""
    def cut(o):
        if isinstance(o, dict):
            return {k: cut(v) for k, v in o.items()}
        if isinstance(o, list):
            if len(o) > 12:
                return [cut(x) for x in o[:8]] + ["... %d more entries" % (len(o) - 8)]
            return [cut(x) for x in o]
        return o
    return cut(sc)


def _chunk(args):
    prop, tier, seed, start, stop, hard_deadline = args
    faulthandler.enable()
    warnings.simplefilter("ignore")
    chk = registry()[prop]
    out = {"n": 0, "rounds": 0, "stats": collections.Counter(), "probes": collections.Counter(), "fired": collections.Counter(),
           "sites": collections.Counter(), "keys": set(), "nontrivial": 0, "violations": [], "foreign": collections.Counter(),
           "digests": {}, "samples": [], "by_algo": collections.Counter(), "cells": 0, "max_steps": 0, "foreign_samples": {},
           "skipped": 0}
    for i in range(start, stop):
        if hard_deadline and time.time() > hard_deadline:
            out["skipped"] += stop - i
            break
        sc, res = run_index(prop, tier, seed, i)
        out["n"] += 1
        out["rounds"] += res.rounds
        out["stats"].update(res.stats)
        out["probes"].update(res.probes)
        out["fired"].update(res.fired)
        out["sites"].update(getattr(res, "sites", {}))
        out["cells"] += res.cells
        out["max_steps"] = max(out["max_steps"], res.max_steps)
        key = chk.distinct_key(sc, res)
        if chk.nontrivial(sc, res):
            out["keys"].add(key)
            out["nontrivial"] += 1
        out["by_algo"][engine.algo_label(sc) if "algo" in sc else engine.algo_label(sc["A"])] += 1
        if i % 97 == 0 or i < 64 or (chk.record_all_digests and i < chk.record_all_digests):
            out["digests"][i] = res.digest
        if len(out["samples"]) < 2 and res.violation is None:
            out["samples"].append({"run_index": i, "scenario": _abridge(sc), "rounds": res.rounds, "cells": res.cells, "digest": res.digest})
        if res.violation is not None:
            out["violations"].append({"i": i, "info": res.violation, "scenario": sc, "explicit": res.explicit, "chunk_start": start})
        if res.foreign is not None:
            sig = res.foreign["signature"]
            out["foreign"][sig] += 1
            out["foreign_samples"].setdefault(sig, {"i": i, "detail": res.foreign["detail"]})
    return out


def isolated(fn, *a):
    """Run fn(*a) in a child forked from this process and return its (pickled) result.

    Every simulated run executes in its own forked child of a worker that has only imported
    PyXAB: process-global state the library may leak between instances (class attributes,
    module-level caches) can then never carry over from one run to the next, so a run is a
    function of its scenario alone - in the batch, in the self-tests, during minimisation and in
    bin/replay alike.  (Leaks between instances *within* a scenario - POO/GPO learners, the two
    instances of C14 - are of course still there to be found.)"""
    import pickle
    r, w = os.pipe()
    pid = os.fork()
    if pid == 0:
        code = 0
        try:
            os.close(r)
            try:
                data = pickle.dumps(("ok", fn(*a)))
            except BaseException:  # noqa
                import traceback
                data = pickle.dumps(("error", traceback.format_exc()))
                code = 1
            with os.fdopen(w, "wb") as f:
                f.write(data)
        finally:
            os._exit(code)
    os.close(w)
    with os.fdopen(r, "rb") as f:
        data = f.read()
    os.waitpid(pid, 0)
    if not data:
        raise engine.HarnessError("isolated run died without a result")
    kind, out = pickle.loads(data)
    if kind == "error":
        raise engine.HarnessError("isolated run failed:\n" + out)
    return out


def run_isolated(chk, sc):
    if os.environ.get("VERIF_NO_ISOLATION"):
        return chk.run(sc)
    return isolated(chk.run, sc)


# --------------------------------------------------------------------------- minimiser

def _try(chk, sc, want_sig, known_status, findings, budget):
    if budget["left"] <= 0 or time.time() > budget["deadline"]:
        return None
    try:
        if not chk.legal(sc):
            return None
    except Exception:
        return None
    budget["left"] -= 1
    try:
        res = run_isolated(chk, sc)
    except Exception:
        return None
    if res.violation is None or res.violation["signature"] != want_sig:
        return None
    if (match_finding(res.violation, sc, findings) is not None) != known_status:
        return None
    return res


def minimise(chk, explicit, info, findings, max_runs=300, max_s=45.0):
    """Greedy shrinking of a concretised scenario while the same signature persists."""
    sig = info["signature"]
    known_status = match_finding(info, explicit, findings) is not None
    budget = {"left": max_runs, "deadline": time.time() + max_s}
    best = copy.deepcopy(explicit)
    res0 = _try(chk, best, sig, known_status, findings, budget)
    if res0 is None:
        return explicit, None  # concretised form does not reproduce: caller reports the original
    best_res = res0

    def attempt(cand):
        nonlocal best, best_res
        r = _try(chk, cand, sig, known_status, findings, budget)
        if r is not None:
            # re-concretise: keep only what was consumed
            best = r.explicit if r.explicit is not None else cand
            best_res = r
            return True
        return False

    progress = True
    while progress and budget["left"] > 0 and time.time() < budget["deadline"]:
        progress = False
        for fn in chk.shrinkers():
            try:
                cands = fn(best)
            except Exception:
                cands = []      # a shrinker that cannot handle this scenario is skipped, never fatal
            for cand in cands:
                if budget["left"] <= 0:
                    break
                if attempt(cand):
                    progress = True
                    break
    return best, best_res


# --------------------------------------------------------------------------- replay files

def write_replay(prop, scenario, info, digest, tag, sequence_before=None):
    os.makedirs(REPLAY_DIR, exist_ok=True)
    name = "%s-%s-%016x.json" % (prop, info["clause"], H(info["signature"], tag))
    path = os.path.join(REPLAY_DIR, name)
    doc = {"check": prop, "scenario": scenario,
           "expect": {"signature": info["signature"], "round": info["round"], "digest": digest, "detail": info["detail"]}}
    if sequence_before:
        doc["sequence_before"] = sequence_before
        doc["note"] = ("the violation needs the earlier instances listed under sequence_before to have run in the same process "
                       "(state shared between instances); bin/replay runs them first, in order")
    with open(path, "w") as f:
        json.dump(doc, f, indent=1, default=_json_default)
    return path


def _fresh_ok(path, sig):
    fr = replay_in_fresh_interpreter(path)
    return fr.get("signature") == sig, fr


def report_violation(chk, prop, tier, seed, v, findings):
    """Minimise, write a replay file and make sure it reproduces in a fresh interpreter.
    Returns (path, note)."""
    sig = v["info"]["signature"]
    fresh = not os.environ.get("VERIF_NO_FRESH")
    mini, mres = minimise(chk, v["explicit"], v["info"], findings)
    if mres is not None:
        path = write_replay(prop, mini, mres.violation, mres.digest, "min")
        if not fresh:
            return path, "minimised to %d rounds" % (mini.get("A") or mini).get("rounds", -1)
        ok, fr = _fresh_ok(path, sig)
        if ok and fr.get("digest") == mres.digest:
            return path, "minimised to %d rounds; reproduced in a fresh interpreter" % (mini.get("A") or mini).get("rounds", -1)
    # the concretised original
    res = None
    try:
        res = run_isolated(chk, v["explicit"])
    except Exception:
        res = None
    path = write_replay(prop, v["explicit"], v["info"], res.digest if res is not None else "", "explicit-%d" % v["i"])
    if not fresh:
        return path, "explicit (unminimised) form"
    ok, fr = _fresh_ok(path, sig)
    if ok:
        rp = json.load(open(path))
        rp["expect"]["digest"] = fr.get("digest")
        rp["expect"]["round"] = fr.get("round")
        json.dump(rp, open(path, "w"), indent=1, default=_json_default)
        return path, "explicit (unminimised) form; reproduced in a fresh interpreter"
    # depends on earlier instances in the same process: replay the chunk's runs as a sequence, then drop what is not needed
    start = v.get("chunk_start", v["i"])
    before = [run_index_scenario(prop, tier, seed, j) for j in range(start, v["i"])]
    target = v["scenario"]

    def attempt(seq):
        p2 = write_replay(prop, target, v["info"], "", "seq-%d" % v["i"], sequence_before=seq)
        ok2, fr2 = _fresh_ok(p2, sig)
        return ok2, fr2, p2
    ok, fr, path = attempt(before)
    if not ok:
        path = write_replay(prop, target, v["info"], "", "orig-%d" % v["i"])
        return path, ("observed in the batch but NOT reproduced in a fresh interpreter, neither alone nor after the %d earlier runs of its "
                      "chunk (replay file holds the generating scenario)" % len(before))
    # ddmin-lite on the prefix (each attempt is a fresh interpreter)
    tries = 0
    size = max(1, len(before) // 2)
    while size >= 1 and tries < 24 and len(before) > 1:
        k = 0
        shrunk = False
        while k < len(before) and tries < 24:
            cand = before[:k] + before[k + size:]
            tries += 1
            ok2, fr2, _ = attempt(cand)
            if ok2:
                before = cand
                fr = fr2
                shrunk = True
            else:
                k += size
        if size == 1 and not shrunk:
            break
        size = max(1, size // 2) if size > 1 else (1 if shrunk else 0)
    ok, fr, path = attempt(before)
    rp = json.load(open(path))
    rp["expect"]["digest"] = fr.get("digest")
    rp["expect"]["round"] = fr.get("round")
    json.dump(rp, open(path, "w"), indent=1, default=_json_default)
    return path, ("needs %d earlier instance(s) in the same process (state shared between instances); sequence replay reproduced in a "
                  "fresh interpreter" % len(before))


def run_index_scenario(prop, tier, seed, i):
    chk = registry()[prop]
    rs = H(seed, prop, tier, i)
    return chk.generate_indexed(i, random.Random(H(rs, "config")), rs, tier)


def _json_default(o):
    try:
        import numpy as np
        if isinstance(o, np.generic):
            return o.item()
    except Exception:
        pass
    if isinstance(o, (set, frozenset)):
        return sorted(o)
    return repr(o)


def replay(path, quiet=False):
    with open(path) as f:
        rp = json.load(f)
    chk = registry()[rp["check"]]
    for prior in rp.get("sequence_before") or []:
        # earlier instances in the same process (the violation depends on state they leave behind)
        chk.run(prior)
    res = chk.run(rp["scenario"])
    exp = rp.get("expect") or {}
    if res.violation is None:
        if not quiet:
            print("REPLAY no violation (expected %s)" % exp.get("signature"))
        return 0, res
    same = (res.violation["signature"] == exp.get("signature") and res.violation["round"] == exp.get("round")
            and res.digest == exp.get("digest"))
    if not quiet:
        print("REPLAY %s round=%d digest=%s %s" % (res.violation["signature"], res.violation["round"], res.digest[:16],
                                                   "(as recorded)" if same else "(DIFFERS from recorded expectation)"))
        print("  " + res.violation["detail"])
        print("VIOLATION property=%s replay=%s" % (res.violation["property"], path))
    return 1, res


def replay_in_fresh_interpreter(path, hashseed="1"):
    env = dict(os.environ)
    env["PYTHONHASHSEED"] = hashseed
    p = subprocess.run([sys.executable, os.path.join(VERIF, "sim", "main.py"), "replay-json", path], env=env,
                       capture_output=True, text=True, timeout=300)
    try:
        return json.loads(p.stdout.strip().splitlines()[-1])
    except Exception:
        return {"error": p.stdout[-400:] + p.stderr[-400:]}


# --------------------------------------------------------------------------- determinism self-test

def selftest_fresh(prop, tier, seed, indices, hashseed):
    env = dict(os.environ)
    env["PYTHONHASHSEED"] = hashseed
    p = subprocess.run([sys.executable, os.path.join(VERIF, "sim", "main.py"), "digests", prop, tier, str(seed),
                        ",".join(str(i) for i in indices)], env=env, capture_output=True, text=True, timeout=900)
    if p.returncode != 0:
        raise engine.HarnessError("fresh-interpreter self-test failed: " + p.stderr[-500:])
    return {int(k): v for k, v in json.loads(p.stdout.strip().splitlines()[-1]).items()}


# --------------------------------------------------------------------------- the batch

def run_check(prop, tier, seed, workers=None, n_override=None, budget_s=None):
    t0 = time.time()
    chk = registry()[prop]
    findings = load_findings()
    N = n_override or chk.sizes[tier]
    workers = workers or int(os.environ.get("VERIF_WORKERS", "0")) or min(16, os.cpu_count() or 4)
    soft = budget_s or chk.budget_s[tier]
    hard_deadline = t0 + soft
    csize = max(1, min(chk.chunk, (N + workers * 4 - 1) // (workers * 4)))
    chunks = [(prop, tier, seed, s, min(N, s + csize), hard_deadline) for s in range(0, N, csize)]
    agg = None
    ctx = multiprocessing.get_context("fork")
    faulthandler.dump_traceback_later(soft * 3 + 600, exit=False)
    with ProcessPoolExecutor(max_workers=workers, mp_context=ctx) as ex:
        futs = [ex.submit(_chunk, c) for c in chunks]
        for fu in as_completed(futs):
            try:
                out = fu.result(timeout=soft * 3 + 300)
            except Exception as e:
                print("HARNESS-ERROR worker failed: %r" % (e,))
                import traceback
                traceback.print_exc()
                return 2
            if agg is None:
                agg = out
            else:
                for k in ("stats", "probes", "fired", "sites", "foreign", "by_algo"):
                    agg[k].update(out[k])
                for k in ("n", "rounds", "nontrivial", "cells", "skipped"):
                    agg[k] += out[k]
                agg["max_steps"] = max(agg["max_steps"], out["max_steps"])
                agg["keys"] |= out["keys"]
                agg["violations"].extend(out["violations"])
                agg["digests"].update(out["digests"])
                for s, v in out["foreign_samples"].items():
                    agg["foreign_samples"].setdefault(s, v)
                if len(agg["samples"]) < 3:
                    agg["samples"].extend(out["samples"][: 3 - len(agg["samples"])])
    faulthandler.cancel_dump_traceback_later()

    # ---- determinism self-test: same indices again in this process and in a fresh interpreter
    det = {"in_process": 0, "fresh_interpreter": 0, "hashseed": "4242"}
    sample = sorted(agg["digests"])[: chk.selftest[tier]]
    for i in sample[: max(4, len(sample) // 4)]:
        sc, res = run_index(prop, tier, seed, i)
        det["in_process"] += 1
        if res.digest != agg["digests"][i]:
            print("HARNESS-NONDETERMINISM property=%s run=%d (in-process repeat differs)" % (prop, i))
            return 2
    if sample and not os.environ.get("VERIF_NO_FRESH"):
        fresh = selftest_fresh(prop, tier, seed, sample, det["hashseed"])
        for i in sample:
            det["fresh_interpreter"] += 1
            if fresh.get(i) != agg["digests"][i]:
                print("HARNESS-NONDETERMINISM property=%s run=%d (fresh interpreter, PYTHONHASHSEED=%s differs)" % (prop, i, det["hashseed"]))
                return 2

    # ---- property-specific batch phase (e.g. C14: fresh interpreters under other hash seeds)
    try:
        extra = chk.post_batch(tier, seed, agg)
    except engine.HarnessError as e:
        print("HARNESS-ERROR %s" % e)
        return 2
    agg["violations"].extend(extra)

    # ---- violations: group by signature, separate known findings
    by_sig = collections.OrderedDict()
    for v in sorted(agg["violations"], key=lambda v: v["i"]):
        f = match_finding(v["info"], v["scenario"], findings)
        key = (v["info"]["signature"], f["id"] if f else None)
        by_sig.setdefault(key, []).append(v)
    new_violations = []
    known_seen = collections.Counter()
    for (sig, fid), vs in by_sig.items():
        if fid is not None:
            known_seen[fid] += len(vs)
            continue
        v = min(vs, key=lambda v: (v["info"]["round"], v["i"]))
        new_violations.append((sig, vs, v))
    exit_code = 0
    replays = []
    for sig, vs, v in new_violations[:6]:
        path, note = report_violation(chk, prop, tier, seed, v, findings)
        print("  signature=%s runs=%d first_run_index=%d seed=%d %s" % (sig, len(vs), v["i"], seed, note))
        print("  detail: %s" % v["info"]["detail"])
        print("VIOLATION property=%s replay=%s" % (prop, path))
        replays.append(path)
        exit_code = 1
    for sig, vs, v in new_violations[6:]:
        print("  further signature (not minimised): %s runs=%d first_run_index=%d detail: %s" % (sig, len(vs), v["i"], v["info"]["detail"][:160]))

    # ---- witnesses of the listed findings are replayed on every run
    witness = {}
    for f in findings["findings"]:
        if f["property"] != prop:
            continue
        wpath = os.path.join(VERIF, f["witness"]) if f.get("witness") else None
        status = "no-witness"
        if wpath and os.path.exists(wpath):
            code, res = isolated(replay, wpath, True)
            if code == 1 and match_finding(res.violation, json.load(open(wpath))["scenario"], findings) is f:
                status = "reproduced"
            elif code == 1:
                status = "different-violation"
                print("  witness %s now fails differently: %s" % (f["witness"], res.violation["signature"]))
                print("VIOLATION property=%s replay=%s" % (prop, wpath))
                exit_code = 1
            else:
                status = "not-reproduced"
        witness[f["id"]] = status
        if status == "reproduced" or known_seen.get(f["id"]):
            print("KNOWN-FINDING: property=%s %s [%s; witness %s; %d runs of this batch hit it]" % (
                prop, f["what"], f["id"], status, known_seen.get(f["id"], 0)))
        else:
            print("  note: listed finding %s was not observed in this run (witness: %s)" % (f["id"], status))

    # ---- witnesses of repaired defects must stay quiet (a 'fixed' entry suppresses nothing)
    regress = {}
    fdir = os.path.join(VERIF, "findings", "fixed")
    if os.path.isdir(fdir):
        for name in sorted(os.listdir(fdir)):
            if not (name.startswith(prop + "-") and name.endswith(".json")):
                continue
            wpath = os.path.join(fdir, name)
            code, res = isolated(replay, wpath, True)
            regress[name] = "quiet" if code == 0 else res.violation["signature"]
            if code == 1:
                print("  repaired defect is back: %s (%s)" % (res.violation["signature"], res.violation["detail"][:160]))
                print("VIOLATION property=%s replay=%s" % (prop, wpath))
                exit_code = 1
                nreg = 1
    wall = time.time() - t0
    foreign_n = sum(agg["foreign"].values())
    if agg["n"] and foreign_n > 0.5 * agg["n"] and exit_code == 0:
        print("HARNESS-ERROR property=%s: %d of %d runs ended in a violation of another property or a crash (%s); nothing was decided" % (
            prop, foreign_n, agg["n"], ", ".join(list(agg["foreign"])[:3])))
        exit_code = 2
    write_evidence(chk, prop, tier, seed, agg, wall, det, known_seen, witness,
                   len(new_violations) + sum(1 for v in regress.values() if v != "quiet"), N, replays, regress)
    print("%s %s: %d runs, %d rounds, %d distinct non-trivial, %d violations (%d known-finding hits), %.1fs" % (
        prop, tier, agg["n"], agg["rounds"], len(agg["keys"]), len(new_violations), sum(known_seen.values()), wall))
    return exit_code


def write_evidence(chk, prop, tier, seed, agg, wall, det, known_seen, witness, nviol, N, replays, regress=None):
    os.makedirs(EVIDENCE_DIR, exist_ok=True)
    fired = dict(sorted(agg["fired"].items()))
    for k in list(chk.fault_kinds) + ["interject-query", "mid-round-query", "neighbour"]:
        fired.setdefault(k, 0)
    unreached = sorted(p for p in chk.probe_names if not agg["probes"].get(p))
    cov = {
        "evaluations": agg["n"],
        "distinct_nontrivial": len(agg["keys"]),
        "rule": chk.rule + COMMON_SPACE,
        "samples": agg["samples"][:3],
        "planned_runs": N,
        "runs_skipped_by_deadline": agg["skipped"],
        "simulated_rounds": agg["rounds"],
        "simulated_time_unit": "one ask/tell round (pull + receive_reward); the only clock in the system is the round counter",
        "runs_per_hour": int(agg["n"] / wall * 3600) if wall > 0 else 0,
        "rounds_per_hour": int(agg["rounds"] / wall * 3600) if wall > 0 else 0,
        "nontrivial_runs": agg["nontrivial"],
        "runs_by_algorithm": dict(sorted(agg["by_algo"].items())),
        "cells_created": agg["cells"],
        "faults_fired": fired,
        "faults_not_applicable": {k: "no such surface in a synchronous single-process library (DESIGN 1)" for k in CLASSICAL_FAULTS_NA},
        "rng_call_sites": dict(sorted(agg["sites"].items())),
        "oracle_counters": dict(sorted(agg["stats"].items())),
        "probes": dict(sorted(agg["probes"].items())),
        "probes_unreached": unreached,
        "runs_ended_by_other_property_or_crash": dict(agg["foreign"]),
        "runs_ended_samples": agg["foreign_samples"],
        "known_finding_hits": dict(known_seen),
        "known_finding_witnesses": witness,
        "repaired_defect_witnesses": regress,
        "determinism_selftest": det,
        "watchdog_max_steps_in_one_call": agg["max_steps"],
        "components": chk.components,
        "replays_written": replays,
        "exhaustive": False,
    }
    cov.update(chk.extra_coverage(agg))
    ev = {
        "property_id": prop, "tier": tier, "seed": seed, "level": chk.level, "coverage": cov,
        "assumptions": chk.assumptions, "wall_s": round(wall, 2), "violations": nviol,
    }
    with open(os.path.join(EVIDENCE_DIR, prop + ".json"), "w") as f:
        json.dump(ev, f, indent=1, default=_json_default)
