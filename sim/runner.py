"""Sharded batch runner, minimiser, replay, known-finding matching, evidence writer."""
import os
import sys
import json
import time
import copy
import random
import collections
import subprocess
import faulthandler
import warnings
import multiprocessing
from concurrent.futures import ProcessPoolExecutor, as_completed

from . import engine
from .engine import H

VERIF = os.path.dirname(os.path.dirname(os.path.abspath(__file__)))
EVIDENCE_DIR = os.path.join(VERIF, "evidence")
REPLAY_DIR = os.path.join(VERIF, "replays")
FINDINGS_FILE = os.path.join(VERIF, "known_findings.json")

CLASSICAL_FAULTS_NA = ["message-loss", "message-duplication", "message-reordering", "network-partition",
                       "crash-restart", "torn-write", "disk-error", "clock-skew(wall)", "failing-syscall", "thread-preemption"]


def registry():
    from . import checks
    return checks.CHECKS


# --------------------------------------------------------------------------- known findings

def load_findings():
    if not os.path.exists(FINDINGS_FILE):
        return {"findings": [], "fixed": []}
    with open(FINDINGS_FILE) as f:
        return json.load(f)


def _arity(sc):
    p = sc["partition"]
    if p["cls"] == "DimensionBinaryPartition":
        return 2 ** len(sc["domain"])
    return p.get("K", 2)


def where_holds(where, sc):
    """Predicate over a scenario; every key must hold."""
    params = sc.get("params") or {}
    for k, v in (where or {}).items():
        if k == "param_lt":
            if not all(name in params and params[name] is not None and params[name] < x for name, x in v.items()):
                return False
        elif k == "param_ge":
            if not all(name in params and params[name] is not None and params[name] >= x for name, x in v.items()):
                return False
        elif k == "param_set":
            if not all(params.get(name) is not None for name in v):
                return False
        elif k == "param_unset":
            if not all(params.get(name) is None for name in v):
                return False
        elif k == "arity_ne":
            if _arity(sc) == v:
                return False
        elif k == "arity_eq":
            if _arity(sc) != v:
                return False
        elif k == "partition_in":
            if sc["partition"]["cls"] not in v:
                return False
        elif k == "meta":
            m = sc.get("meta") or {}
            if not all(m.get(a) == b for a, b in v.items()):
                return False
        elif k == "derived":
            from . import checks
            if not all(checks.derived(sc).get(a) == b for a, b in v.items()):
                return False
        else:
            raise engine.HarnessError("unknown where-key %r in known_findings.json" % k)
    return True


def match_finding(info, sc, findings):
    for f in findings["findings"]:
        if f["property"] != info["property"] or f["clause"] != info["clause"]:
            continue
        if f.get("algo") and f["algo"] != info["algo"] and f["algo"] != info["algo"].split(":")[0]:
            continue
        if f.get("site") and f["site"] != info.get("site"):
            continue
        if where_holds(f.get("where"), sc):
            return f
    return None


# --------------------------------------------------------------------------- one run (by index)

def run_index(prop, tier, seed, i):
    chk = registry()[prop]
    rs = H(seed, prop, tier, i)
    sc = chk.generate_indexed(i, random.Random(H(rs, "config")), rs, tier)
    res = chk.run(sc)
    return sc, res


def _chunk(args):
    prop, tier, seed, start, stop, hard_deadline = args
    faulthandler.enable()
    warnings.simplefilter("ignore")
    chk = registry()[prop]
    out = {"n": 0, "rounds": 0, "stats": collections.Counter(), "probes": collections.Counter(), "fired": collections.Counter(),
           "sites": collections.Counter(), "keys": set(), "nontrivial": 0, "violations": [], "foreign": collections.Counter(),
           "digests": {}, "samples": [], "by_algo": collections.Counter(), "cells": 0, "max_steps": 0, "foreign_samples": {},
           "skipped": 0}
    for i in range(start, stop):
        if hard_deadline and time.time() > hard_deadline:
            out["skipped"] += stop - i
            break
        sc, res = run_index(prop, tier, seed, i)
        out["n"] += 1
        out["rounds"] += res.rounds
        out["stats"].update(res.stats)
        out["probes"].update(res.probes)
        out["fired"].update(res.fired)
        out["sites"].update(getattr(res, "sites", {}))
        out["cells"] += res.cells
        out["max_steps"] = max(out["max_steps"], res.max_steps)
        key = chk.distinct_key(sc, res)
        if chk.nontrivial(sc, res):
            out["keys"].add(key)
            out["nontrivial"] += 1
        out["by_algo"][engine.algo_label(sc) if "algo" in sc else engine.algo_label(sc["A"])] += 1
        if i % 97 == 0 or i < 64 or (chk.record_all_digests and i < chk.record_all_digests):
            out["digests"][i] = res.digest
        if len(out["samples"]) < 2 and res.violation is None:
            out["samples"].append({"run_index": i, "scenario": sc, "rounds": res.rounds, "cells": res.cells, "digest": res.digest})
        if res.violation is not None:
            out["violations"].append({"i": i, "info": res.violation, "scenario": sc, "explicit": res.explicit})
        if res.foreign is not None:
            sig = res.foreign["signature"]
            out["foreign"][sig] += 1
            out["foreign_samples"].setdefault(sig, {"i": i, "detail": res.foreign["detail"]})
    return out


# --------------------------------------------------------------------------- minimiser

def _try(chk, sc, want_sig, known_status, findings, budget):
    if budget["left"] <= 0 or time.time() > budget["deadline"]:
        return None
    budget["left"] -= 1
    try:
        res = chk.run(sc)
    except Exception:
        return None
    if res.violation is None or res.violation["signature"] != want_sig:
        return None
    if (match_finding(res.violation, sc, findings) is not None) != known_status:
        return None
    return res


def minimise(chk, explicit, info, findings, max_runs=300, max_s=45.0):
    """Greedy shrinking of a concretised scenario while the same signature persists."""
    sig = info["signature"]
    known_status = match_finding(info, explicit, findings) is not None
    budget = {"left": max_runs, "deadline": time.time() + max_s}
    best = copy.deepcopy(explicit)
    res0 = _try(chk, best, sig, known_status, findings, budget)
    if res0 is None:
        return explicit, None  # concretised form does not reproduce: caller reports the original
    best_res = res0

    def attempt(cand):
        nonlocal best, best_res
        r = _try(chk, cand, sig, known_status, findings, budget)
        if r is not None:
            # re-concretise: keep only what was consumed
            best = r.explicit if r.explicit is not None else cand
            best_res = r
            return True
        return False

    progress = True
    while progress and budget["left"] > 0 and time.time() < budget["deadline"]:
        progress = False
        for fn in chk.shrinkers():
            for cand in fn(best):
                if budget["left"] <= 0:
                    break
                if attempt(cand):
                    progress = True
                    break
    return best, best_res


# --------------------------------------------------------------------------- replay files

def write_replay(prop, scenario, info, digest, tag):
    os.makedirs(REPLAY_DIR, exist_ok=True)
    name = "%s-%s-%016x.json" % (prop, info["clause"], H(info["signature"], tag))
    path = os.path.join(REPLAY_DIR, name)
    with open(path, "w") as f:
        json.dump({"check": prop, "scenario": scenario,
                   "expect": {"signature": info["signature"], "round": info["round"], "digest": digest, "detail": info["detail"]}},
                  f, indent=1, default=_json_default)
    return path


def _json_default(o):
    try:
        import numpy as np
        if isinstance(o, np.generic):
            return o.item()
    except Exception:
        pass
    if isinstance(o, (set, frozenset)):
        return sorted(o)
    return repr(o)


def replay(path, quiet=False):
    with open(path) as f:
        rp = json.load(f)
    chk = registry()[rp["check"]]
    res = chk.run(rp["scenario"])
    exp = rp.get("expect") or {}
    if res.violation is None:
        if not quiet:
            print("REPLAY no violation (expected %s)" % exp.get("signature"))
        return 0, res
    same = (res.violation["signature"] == exp.get("signature") and res.violation["round"] == exp.get("round")
            and res.digest == exp.get("digest"))
    if not quiet:
        print("REPLAY %s round=%d digest=%s %s" % (res.violation["signature"], res.violation["round"], res.digest[:16],
                                                   "(as recorded)" if same else "(DIFFERS from recorded expectation)"))
        print("  " + res.violation["detail"])
        print("VIOLATION property=%s replay=%s" % (res.violation["property"], path))
    return 1, res


def replay_in_fresh_interpreter(path, hashseed="1"):
    env = dict(os.environ)
    env["PYTHONHASHSEED"] = hashseed
    p = subprocess.run([sys.executable, os.path.join(VERIF, "sim", "main.py"), "replay-json", path], env=env,
                       capture_output=True, text=True, timeout=300)
    try:
        return json.loads(p.stdout.strip().splitlines()[-1])
    except Exception:
        return {"error": p.stdout[-400:] + p.stderr[-400:]}


# --------------------------------------------------------------------------- determinism self-test

def selftest_fresh(prop, tier, seed, indices, hashseed):
    env = dict(os.environ)
    env["PYTHONHASHSEED"] = hashseed
    p = subprocess.run([sys.executable, os.path.join(VERIF, "sim", "main.py"), "digests", prop, tier, str(seed),
                        ",".join(str(i) for i in indices)], env=env, capture_output=True, text=True, timeout=900)
    if p.returncode != 0:
        raise engine.HarnessError("fresh-interpreter self-test failed: " + p.stderr[-500:])
    return {int(k): v for k, v in json.loads(p.stdout.strip().splitlines()[-1]).items()}


# --------------------------------------------------------------------------- the batch

def run_check(prop, tier, seed, workers=None, n_override=None, budget_s=None):
    t0 = time.time()
    chk = registry()[prop]
    findings = load_findings()
    N = n_override or chk.sizes[tier]
    workers = workers or int(os.environ.get("VERIF_WORKERS", "0")) or min(16, os.cpu_count() or 4)
    soft = budget_s or chk.budget_s[tier]
    hard_deadline = t0 + soft
    csize = max(1, min(chk.chunk, (N + workers * 4 - 1) // (workers * 4)))
    chunks = [(prop, tier, seed, s, min(N, s + csize), hard_deadline) for s in range(0, N, csize)]
    agg = None
    ctx = multiprocessing.get_context("fork")
    faulthandler.dump_traceback_later(soft * 3 + 600, exit=False)
    with ProcessPoolExecutor(max_workers=workers, mp_context=ctx) as ex:
        futs = [ex.submit(_chunk, c) for c in chunks]
        for fu in as_completed(futs):
            try:
                out = fu.result(timeout=soft * 3 + 300)
            except Exception as e:
                print("HARNESS-ERROR worker failed: %r" % (e,))
                import traceback
                traceback.print_exc()
                return 2
            if agg is None:
                agg = out
            else:
                for k in ("stats", "probes", "fired", "sites", "foreign", "by_algo"):
                    agg[k].update(out[k])
                for k in ("n", "rounds", "nontrivial", "cells", "skipped"):
                    agg[k] += out[k]
                agg["max_steps"] = max(agg["max_steps"], out["max_steps"])
                agg["keys"] |= out["keys"]
                agg["violations"].extend(out["violations"])
                agg["digests"].update(out["digests"])
                for s, v in out["foreign_samples"].items():
                    agg["foreign_samples"].setdefault(s, v)
                if len(agg["samples"]) < 3:
                    agg["samples"].extend(out["samples"][: 3 - len(agg["samples"])])
    faulthandler.cancel_dump_traceback_later()

    # ---- determinism self-test: same indices again in this process and in a fresh interpreter
    det = {"in_process": 0, "fresh_interpreter": 0, "hashseed": "4242"}
    sample = sorted(agg["digests"])[: chk.selftest[tier]]
    for i in sample[: max(4, len(sample) // 4)]:
        sc, res = run_index(prop, tier, seed, i)
        det["in_process"] += 1
        if res.digest != agg["digests"][i]:
            print("HARNESS-NONDETERMINISM property=%s run=%d (in-process repeat differs)" % (prop, i))
            return 2
    if sample and not os.environ.get("VERIF_NO_FRESH"):
        fresh = selftest_fresh(prop, tier, seed, sample, det["hashseed"])
        for i in sample:
            det["fresh_interpreter"] += 1
            if fresh.get(i) != agg["digests"][i]:
                print("HARNESS-NONDETERMINISM property=%s run=%d (fresh interpreter, PYTHONHASHSEED=%s differs)" % (prop, i, det["hashseed"]))
                return 2

    # ---- property-specific batch phase (e.g. C14: fresh interpreters under other hash seeds)
    try:
        extra = chk.post_batch(tier, seed, agg)
    except engine.HarnessError as e:
        print("HARNESS-ERROR %s" % e)
        return 2
    agg["violations"].extend(extra)

    # ---- violations: group by signature, separate known findings
    by_sig = collections.OrderedDict()
    for v in sorted(agg["violations"], key=lambda v: v["i"]):
        f = match_finding(v["info"], v["scenario"], findings)
        key = (v["info"]["signature"], f["id"] if f else None)
        by_sig.setdefault(key, []).append(v)
    new_violations = []
    known_seen = collections.Counter()
    for (sig, fid), vs in by_sig.items():
        if fid is not None:
            known_seen[fid] += len(vs)
            continue
        v = min(vs, key=lambda v: (v["info"]["round"], v["i"]))
        new_violations.append((sig, vs, v))
    exit_code = 0
    replays = []
    for sig, vs, v in new_violations[:6]:
        mini, mres = minimise(chk, v["explicit"], v["info"], findings)
        if mres is None:
            # the concretised form did not reproduce; report the generating scenario itself
            res = chk.run(v["scenario"])
            info = res.violation or v["info"]
            path = write_replay(prop, v["scenario"], info, res.digest, "orig-%d" % v["i"])
            note = "unminimised (concretised form did not reproduce: harness defect)"
        else:
            path = write_replay(prop, mini, mres.violation, mres.digest, "min")
            note = "minimised to %d rounds" % (mini.get("A") or mini).get("rounds", -1)
            if not os.environ.get("VERIF_NO_FRESH"):
                fr = replay_in_fresh_interpreter(path)
                if fr.get("signature") != mres.violation["signature"] or fr.get("digest") != mres.digest:
                    path = write_replay(prop, v["explicit"], v["info"], "", "explicit-%d" % v["i"])
                    note = "minimised replay was not stable in a fresh interpreter; explicit form reported"
        print("  signature=%s runs=%d first_run_index=%d seed=%d %s" % (sig, len(vs), v["i"], seed, note))
        print("  detail: %s" % v["info"]["detail"])
        print("VIOLATION property=%s replay=%s" % (prop, path))
        replays.append(path)
        exit_code = 1
    for sig, vs, v in new_violations[6:]:
        print("  further signature (not minimised): %s runs=%d first_run_index=%d detail: %s" % (sig, len(vs), v["i"], v["info"]["detail"][:160]))

    # ---- witnesses of the listed findings are replayed on every run
    witness = {}
    for f in findings["findings"]:
        if f["property"] != prop:
            continue
        wpath = os.path.join(VERIF, f["witness"]) if f.get("witness") else None
        status = "no-witness"
        if wpath and os.path.exists(wpath):
            code, res = replay(wpath, quiet=True)
            if code == 1 and match_finding(res.violation, json.load(open(wpath))["scenario"], findings) is f:
                status = "reproduced"
            elif code == 1:
                status = "different-violation"
                print("  witness %s now fails differently: %s" % (f["witness"], res.violation["signature"]))
                print("VIOLATION property=%s replay=%s" % (prop, wpath))
                exit_code = 1
            else:
                status = "not-reproduced"
        witness[f["id"]] = status
        if status == "reproduced" or known_seen.get(f["id"]):
            print("KNOWN-FINDING: property=%s %s [%s; witness %s; %d runs of this batch hit it]" % (
                prop, f["what"], f["id"], status, known_seen.get(f["id"], 0)))
        else:
            print("  note: listed finding %s was not observed in this run (witness: %s)" % (f["id"], status))

    # ---- witnesses of repaired defects must stay quiet (a 'fixed' entry suppresses nothing)
    regress = {}
    fdir = os.path.join(VERIF, "findings", "fixed")
    if os.path.isdir(fdir):
        for name in sorted(os.listdir(fdir)):
            if not (name.startswith(prop + "-") and name.endswith(".json")):
                continue
            wpath = os.path.join(fdir, name)
            code, res = replay(wpath, quiet=True)
            regress[name] = "quiet" if code == 0 else res.violation["signature"]
            if code == 1:
                print("  repaired defect is back: %s (%s)" % (res.violation["signature"], res.violation["detail"][:160]))
                print("VIOLATION property=%s replay=%s" % (prop, wpath))
                exit_code = 1
                nreg = 1
    wall = time.time() - t0
    foreign_n = sum(agg["foreign"].values())
    if agg["n"] and foreign_n > 0.5 * agg["n"] and exit_code == 0:
        print("HARNESS-ERROR property=%s: %d of %d runs ended in a violation of another property or a crash (%s); nothing was decided" % (
            prop, foreign_n, agg["n"], ", ".join(list(agg["foreign"])[:3])))
        exit_code = 2
    write_evidence(chk, prop, tier, seed, agg, wall, det, known_seen, witness,
                   len(new_violations) + sum(1 for v in regress.values() if v != "quiet"), N, replays, regress)
    print("%s %s: %d runs, %d rounds, %d distinct non-trivial, %d violations (%d known-finding hits), %.1fs" % (
        prop, tier, agg["n"], agg["rounds"], len(agg["keys"]), len(new_violations), sum(known_seen.values()), wall))
    return exit_code


def write_evidence(chk, prop, tier, seed, agg, wall, det, known_seen, witness, nviol, N, replays, regress=None):
    os.makedirs(EVIDENCE_DIR, exist_ok=True)
    fired = dict(sorted(agg["fired"].items()))
    for k in chk.fault_kinds:
        fired.setdefault(k, 0)
    unreached = sorted(p for p in chk.probe_names if not agg["probes"].get(p))
    cov = {
        "evaluations": agg["n"],
        "distinct_nontrivial": len(agg["keys"]),
        "rule": chk.rule,
        "samples": agg["samples"][:3],
        "planned_runs": N,
        "runs_skipped_by_deadline": agg["skipped"],
        "simulated_rounds": agg["rounds"],
        "simulated_time_unit": "one ask/tell round (pull + receive_reward); the only clock in the system is the round counter",
        "runs_per_hour": int(agg["n"] / wall * 3600) if wall > 0 else 0,
        "rounds_per_hour": int(agg["rounds"] / wall * 3600) if wall > 0 else 0,
        "nontrivial_runs": agg["nontrivial"],
        "runs_by_algorithm": dict(sorted(agg["by_algo"].items())),
        "cells_created": agg["cells"],
        "faults_fired": fired,
        "faults_not_applicable": {k: "no such surface in a synchronous single-process library (DESIGN 1)" for k in CLASSICAL_FAULTS_NA},
        "rng_call_sites": dict(sorted(agg["sites"].items())),
        "oracle_counters": dict(sorted(agg["stats"].items())),
        "probes": dict(sorted(agg["probes"].items())),
        "probes_unreached": unreached,
        "runs_ended_by_other_property_or_crash": dict(agg["foreign"]),
        "runs_ended_samples": agg["foreign_samples"],
        "known_finding_hits": dict(known_seen),
        "known_finding_witnesses": witness,
        "repaired_defect_witnesses": regress,
        "determinism_selftest": det,
        "watchdog_max_steps_in_one_call": agg["max_steps"],
        "components": chk.components,
        "replays_written": replays,
        "exhaustive": False,
    }
    cov.update(chk.extra_coverage(agg))
    ev = {
        "property_id": prop, "tier": tier, "seed": seed, "level": chk.level, "coverage": cov,
        "assumptions": chk.assumptions, "wall_s": round(wall, 2), "violations": nviol,
    }
    with open(os.path.join(EVIDENCE_DIR, prop + ".json"), "w") as f:
        json.dump(ev, f, indent=1, default=_json_default)
