"""Log-equality properties: C14 (reproducible / isolated / input not mutated), C15 (time
labels and recommendation queries do not matter), C16 (affine equivariance).

These use a light driver: the real classes, no recording subclasses, only the RNG seam,
an event log of returned points, and a cooperative scheduler over several actors."""
import os
import sys
import copy
import math
import time as _time
import random as _pyrandom
import hashlib
import collections
from fractions import Fraction

import numpy as np

from . import engine
from .engine import (Seam, RunResult, H, HarnessError, SimHang, Watchdog, pyxab_site, signature, algo_label, fhex,
                     build_algo, plain_partition, make_reward_fn, label_fn, tag, untag)


class Actor:
    """One algorithm instance driven step by step (one API call per step)."""

    def __init__(self, sc, domain=None, name="A"):
        self.sc = sc
        self.name = name
        self.domain = domain if domain is not None else engine.build_domain(sc)
        self.domain_copy = copy.deepcopy(self.domain)
        self.log = []
        self.error = None
        self.algo = None
        self.rewards_given = []
        T = sc["rounds"]
        sched = collections.defaultdict(int)
        for s in sc.get("schedule") or []:
            sched[s["after"]] += s.get("times", 1)
        ops = [("construct",)]
        for i in range(1, T + 1):
            ops.append(("pull", i))
            ops.append(("reward", i))
            for _ in range(sched.get(i, 0)):
                ops.append(("query", i))
        if sc.get("final_query", True):
            ops.append(("final",))
        self.ops = ops
        self.pos = 0
        self.lab = label_fn(sc.get("labels"))
        self.rf = make_reward_fn(sc["rewards"], self.domain_copy)
        self.last = None
        self.queries = []
        self.final = None
        self.max_depth = 0

    @property
    def done(self):
        return self.pos >= len(self.ops) or self.error is not None

    def step(self):
        op = self.ops[self.pos]
        self.pos += 1
        wd = Watchdog.get()
        wd.start(lambda: 5000)
        try:
            try:
                if op[0] == "construct":
                    self.algo = build_algo(self.sc, None, self.domain, plain_partition(self.sc["partition"]))
                elif op[0] == "pull":
                    self.last = self.algo.pull(self.lab(op[1]))
                    self.log.append(_pt(self.last))
                elif op[0] == "reward":
                    r = self.rf(op[1], self.last if isinstance(self.last, list) else [0.0] * len(self.domain))
                    self.rewards_given.append(tag(r))
                    self.algo.receive_reward(self.lab(op[1]), r)
                    self.max_depth = max(self.max_depth, _tree_depth(self.algo))
                elif op[0] == "query":
                    self.queries.append(_pt(self.algo.get_last_point()))
                else:
                    self.final = _pt(self.algo.get_last_point())
            finally:
                wd.stop()
        except SimHang:
            self.error = "hang:%s" % op[0]
        except HarnessError:
            raise
        except Exception as e:
            site = pyxab_site(e.__traceback__)
            if site is None:
                raise
            self.error = "%s:%s" % (type(e).__name__, site)

    def run(self):
        while not self.done:
            self.step()
        return self

    def outcome(self, with_queries=False):
        out = {"points": self.log, "final": self.final, "error": self.error}
        if with_queries:
            out["queries"] = self.queries
        return out


def _tree_depth(algo):
    """Deepest level of any partition the algorithm (or its current base learners) holds."""
    d = 0
    seen = 0
    stack = [algo]
    while stack and seen < 200:
        a = stack.pop()
        seen += 1
        part = getattr(a, "partition", None)
        if part is not None and hasattr(part, "get_depth") and not isinstance(part, type):
            try:
                d = max(d, int(part.get_depth()))
            except Exception:
                pass
        for name in ("algorithm", "curr_algo"):
            sub = getattr(a, name, None)
            if sub is not None:
                stack.append(sub)
        subs = getattr(a, "V_algo", None)
        if isinstance(subs, list):
            stack.extend(subs)
    return d


def _pt(p):
    if isinstance(p, list):
        return [float(x) if isinstance(x, (int, float, np.floating, np.integer)) else repr(x) for x in p]
    return repr(p)


def digest_of(obj):
    return hashlib.sha256(repr(_hexify(obj)).encode()).hexdigest()


def _hexify(o):
    if isinstance(o, float):
        return o.hex()
    if isinstance(o, dict):
        return {k: _hexify(v) for k, v in sorted(o.items())}
    if isinstance(o, (list, tuple)):
        return [_hexify(x) for x in o]
    return o


def solo(sc, pre=None, post_step=None, domain=None):
    seam = Seam(sc["rng"])
    seam.install()
    try:
        if pre:
            pre()
        a = Actor(sc, domain=domain)
        while not a.done:
            a.step()
            if post_step:
                post_step()
    finally:
        seam.uninstall()
    return a, seam


def _solo_outcome(sc):
    return solo(sc)[0].outcome(with_queries=True)


def first_diff(a, b):
    pa, pb = a["points"], b["points"]
    for i, (x, y) in enumerate(zip(pa, pb)):
        if x != y:
            return "pull no. %d: %s vs %s" % (i + 1, _hexify(x), _hexify(y))
    if len(pa) != len(pb):
        return "%d vs %d pulls (errors %r / %r)" % (len(pa), len(pb), a.get("error"), b.get("error"))
    if a.get("error") != b.get("error"):
        return "errors %r vs %r" % (a.get("error"), b.get("error"))
    if a["final"] != b["final"]:
        return "recommendation %s vs %s" % (_hexify(a["final"]), _hexify(b["final"]))
    return None


def _result(sc, rounds, outcome_digest, seam, viol=None, stats=None, probes=None, fired=None):
    res = RunResult()
    res.rounds = rounds
    res.stats = collections.Counter(stats or {})
    res.probes = collections.Counter(probes or {})
    res.fired = collections.Counter(seam.fired if seam is not None else {})
    res.fired.update(fired or {})
    res.sites = collections.Counter(seam.sites if seam is not None else {})
    res.digest = outcome_digest
    res.cells = 0
    res.max_steps = 0
    res.shape = 0
    res.explicit = copy.deepcopy(sc)
    if viol is not None:
        prop, clause, detail, rnd = viol
        inner = sc.get("A") or sc
        info = {"property": prop, "clause": clause, "algo": algo_label(inner), "site": None, "detail": detail, "round": rnd}
        info["signature"] = signature(info)
        res.violation = info
    return res


# --------------------------------------------------------------------------- tripwires (C14)

class Tripwires:
    """Records calls into other sources of nondeterminism made from a PyXAB frame."""
    TARGETS = [("random", ["random", "randint", "uniform", "choice", "shuffle", "gauss", "randrange", "sample", "seed", "getrandbits"]),
               ("time", ["time", "perf_counter", "monotonic", "time_ns", "process_time"]),
               ("os", ["urandom", "getpid"]),
               ("uuid", ["uuid4", "uuid1"])]
    # generators other than the global one (np.random.rand / normal / ... draw from the global generator and are legal)
    NP = ["default_rng", "RandomState", "Generator", "SeedSequence", "PCG64", "MT19937"]

    def __init__(self, clock_jump=False):
        self.hits = []
        self.saved = []
        self.clock_jump = clock_jump
        self.tick = 0

    def _wrap(self, modname, name, orig):
        pdir = engine._pyxab_dir

        def w(*a, **kw):
            f = sys._getframe(1)
            depth = 0
            while f is not None and depth < 12:
                if f.f_code.co_filename.startswith(pdir):
                    self.hits.append("%s.%s from %s:%s" % (modname, name, os.path.basename(f.f_code.co_filename), f.f_code.co_name))
                    break
                f = f.f_back
                depth += 1
            v = orig(*a, **kw)
            if self.clock_jump and modname == "time" and isinstance(v, float):
                self.tick += 1
                return v + (1e6 if self.tick % 2 else -1e6)
            return v
        return w

    def install(self):
        import random, time, os as _os, uuid
        mods = {"random": random, "time": time, "os": _os, "uuid": uuid}
        for modname, names in self.TARGETS:
            m = mods[modname]
            for n in names:
                if hasattr(m, n):
                    o = getattr(m, n)
                    self.saved.append((m, n, o))
                    setattr(m, n, self._wrap(modname, n, o))
        for n in self.NP:
            if hasattr(np.random, n):
                o = getattr(np.random, n)
                self.saved.append((np.random, n, o))
                setattr(np.random, n, self._wrap("numpy.random", n, o))

    def uninstall(self):
        for m, n, o in reversed(self.saved):
            setattr(m, n, o)
        self.saved = []


# --------------------------------------------------------------------------- C14

RNG_FREE_1D = ("BinaryPartition", "KaryPartition", "DimensionBinaryPartition")


def run_c14(sc):
    """sc: {"kind":"c14","A":scenario,"B":scenario|None,"sched_seed":int,"share_domain":bool,"third_party":int,"alloc_noise":int}"""
    A = sc["A"]
    stats = collections.Counter()
    probes = collections.Counter()
    # (a) reproducibility in one process: plain repeat, then with allocation noise, clock jumps and tripwires
    a1, seam = solo(A)
    base = a1.outcome(with_queries=True)
    dg = digest_of(base)
    rounds = len(a1.log)
    if a1.domain != a1.domain_copy:
        return _result(sc, rounds, dg, seam, ("C14", "domain-mutated", "the domain object passed to %s was modified: %r -> %r" % (
            A["algo"], a1.domain_copy, a1.domain), rounds))
    a2, _ = solo(A)
    d = first_diff(base, a2.outcome())
    if d or base != a2.outcome(with_queries=True):
        return _result(sc, rounds, dg, seam, ("C14", "rerun-differs", "same seed, arguments and rewards, second run in the same process: %s" % (d or "queries differ"), rounds))
    junk = []
    nz = sc.get("alloc_noise", 0)
    rj = _pyrandom.Random(sc.get("sched_seed", 0))

    def noise():
        for _ in range(nz):
            junk.append([object() for _ in range(rj.randint(1, 40))])
        if len(junk) > 200:
            del junk[: rj.randint(1, 150)]
    tw = Tripwires(clock_jump=True)
    tw.install()
    try:
        a3, _ = solo(A, pre=noise, post_step=noise if nz else None)
    finally:
        tw.uninstall()
    stats["alloc-noise-objects"] += len(junk)
    fired = collections.Counter({"alloc-noise": len(junk), "clock-jump": tw.tick})
    if tw.hits:
        return _result(sc, rounds, dg, seam, ("C14", "foreign-randomness", "PyXAB called %s" % tw.hits[0], rounds))
    d = first_diff(base, a3.outcome())
    if d:
        return _result(sc, rounds, dg, seam, ("C14", "alloc-differs", "run under allocation noise / jumping clock differs: %s" % d, rounds))
    stats["repro-runs"] += 3
    # (b) isolation
    B = sc.get("B")
    if B is not None and sc.get("share_domain"):
        # "sharing the domain object" means B is built on A's very list: B's solo run is then on a box of the same value
        # (keeps shrunk scenarios consistent: the minimiser may have changed A's box)
        B = dict(B, domain=copy.deepcopy(A["domain"]))
        for k in ("int_bounds", "aliased_rows"):
            B.pop(k, None)
            if A.get(k):
                B[k] = A[k]
    if B is not None:
        # B's solo log is taken in a forked child of its own: by now A has run three times in this process, and state
        # that PyXAB keeps outside its instances (class attributes, module-level caches) would already be in B's baseline
        from . import runner
        bbase = runner.isolated(_solo_outcome, B) if sc.get("compare_B", True) else None
        r = _pyrandom.Random(H(sc.get("sched_seed", 0), "sched"))
        virtual = bool(sc.get("virtual_rng"))
        # virtual_rng: every instance has its own generator.  The statement names NumPy's global generator as the one
        # random source, so two instances that both draw from it necessarily see each other's consumption; to ask
        # "does anything ELSE leak between instances" on random partitions and VROOM, the scheduler context-switches the
        # generator: the seam of an actor (its scripted stream, or the saved state of the real global generator) is
        # installed for the duration of each of its steps.  Each actor then sees exactly the draws of its solo run.
        seam2 = Seam(A["rng"])
        seams = {"A": seam2, "B": Seam(B["rng"]) if virtual else seam2, "T": Seam(A["rng"]) if virtual else seam2}
        states = {}
        current = [None]

        def switch_to(name):
            if not virtual:
                return
            if current[0] is not None:
                states[current[0]] = np.random.get_state()
                seams[current[0]].uninstall()
            current[0] = name
            if name is not None:
                seams[name].install()
                if name in states:
                    np.random.set_state(states[name])
        if not virtual:
            seam2.install()
        try:
            shared = engine.build_domain(A)
            x = Actor(A, domain=shared, name="A")
            y = Actor(B, domain=shared if sc.get("share_domain") else None, name="B")
            third = sc.get("third_party", 0)
            switches = 0
            last = None
            while not (x.done and y.done):
                cand = [z for z in (x, y) if not z.done]
                z = r.choice(cand)
                if last is not None and z is not last:
                    switches += 1
                last = z
                switch_to(z.name)
                z.step()
                if third and r.random() < 0.05:
                    switch_to("T")
                    t = Actor(B if r.random() < 0.5 else A, name="T")
                    for _ in range(r.randint(1, 7)):
                        if not t.done:
                            t.step()
                    stats["third-party-instances"] += 1
            switch_to(None)
        finally:
            for sm in set(seams.values()):
                sm.uninstall()
        if virtual:
            stats["interleaved-pairs(virtual-rng)"] += 1
            fired["generator-context-switch"] += switches
        stats["interleaved-pairs"] += 1
        stats["scheduler-switches"] += switches
        fired["interleaving"] += switches
        fired["shared-domain-object"] += 1 if sc.get("share_domain") else 0
        fired["third-party-instance"] += stats["third-party-instances"]
        if sc.get("share_domain"):
            probes["c14-shared-domain-object"] += 1
        d = first_diff(base, x.outcome())
        if d or base != x.outcome(with_queries=True):
            return _result(sc, rounds, dg, seam, ("C14", "interleaving-differs", "instance A interleaved with %s%s: %s" % (
                algo_label(B), " sharing the domain object" if sc.get("share_domain") else "", d or "queries differ"), rounds))
        d = first_diff(bbase, y.outcome()) if sc.get("compare_B", True) else None
        if sc.get("compare_B", True) and (d or bbase != y.outcome(with_queries=True)):
            return _result(sc, rounds, dg, seam, ("C14", "interleaving-differs", "instance B (%s) interleaved with A%s: %s" % (
                algo_label(B), " sharing the domain object" if sc.get("share_domain") else "", d or "queries differ"), rounds))
        if shared != x.domain_copy:
            return _result(sc, rounds, dg, seam, ("C14", "domain-mutated", "shared domain object modified during the interleaved run", rounds))
    return _result(sc, rounds, dg, seam, None, stats, probes, fired)


# --------------------------------------------------------------------------- C15

def run_c15(sc):
    """sc: {"kind":"c15","A":scenario (labels 1..T, no queries),"variants":[{"labels":{...}} | {"schedule":[...]}]}"""
    A = copy.deepcopy(sc["A"])
    A["labels"] = {"scheme": "one"}
    A["schedule"] = []
    a1, seam = solo(A)
    base = a1.outcome()
    dg = digest_of(base)
    rounds = len(a1.log)
    stats = collections.Counter()
    fired = collections.Counter()
    for v in sc["variants"]:
        B = copy.deepcopy(A)
        if "labels" in v:
            B["labels"] = v["labels"]
        if "schedule" in v:
            B["schedule"] = v["schedule"]
        b1, _ = solo(B)
        d = first_diff(base, b1.outcome())
        stats["twins-compared"] += 1
        if "schedule" in v:
            stats["interjected-queries"] += len(b1.queries)
            fired["interject-query"] += len(b1.queries)
        else:
            fired["label-skew:" + v["labels"]["scheme"]] += 1
        if d:
            if "labels" in v:
                return _result(sc, rounds, dg, seam, ("C15", "labels-differ", "time labels %s instead of 1..T: %s" % (v["labels"], d), rounds))
            return _result(sc, rounds, dg, seam, ("C15", "query-perturbs", "get_last_point interjected after rounds %s: %s" % (
                [s["after"] for s in v["schedule"]][:8], d), rounds))
    return _result(sc, rounds, dg, seam, None, stats, None, fired)


# --------------------------------------------------------------------------- C16

def _frac_bits(x):
    return Fraction(x).denominator.bit_length() - 1


def _exact_add(x, b):
    """x -> x + b is exact *with slack*: integer bits + fractional bits of x, b and x + b leave 3 spare
    mantissa bits, so the next few levels of midpoints computed from these numbers are exact in both
    worlds too (the 'bit budget' of DESIGN 5.16).  Without the slack two correct runs may round a
    midpoint of adjacent floats differently before and after the translation."""
    y = x + b
    if Fraction(x) + Fraction(b) != Fraction(y):
        return False
    q = max(_frac_bits(x), _frac_bits(b), _frac_bits(y))
    m = max(math.frexp(max(abs(x), abs(b), abs(y), 1.0))[1], 1)
    return q + m + 3 <= 53


def run_c16(sc):
    """sc: {"kind":"c16","A":scenario,"scale":s,"shift":[b...],"cls":"exact"|"tol"}"""
    A = sc["A"]
    s = sc["scale"]
    b = sc["shift"]
    B = copy.deepcopy(A)
    B["domain"] = [[s * lo + bb, s * hi + bb] for (lo, hi), bb in zip(A["domain"], b)]
    a1, seam = solo(A)
    b1, _ = solo(B)
    oa, ob = a1.outcome(), b1.outcome()
    dg = digest_of([oa, ob])
    rounds = len(a1.log)
    stats = collections.Counter()
    clause = "scaling-differs" if all(x == 0 for x in b) else "translation-differs"
    if oa["error"] != ob["error"] or len(oa["points"]) != len(ob["points"]):
        return _result(sc, rounds, dg, seam, ("C16", clause, "runs end differently: %r after %d pulls vs %r after %d pulls" % (
            oa["error"], len(oa["points"]), ob["error"], len(ob["points"])), rounds))
    mag = max(max(abs(v) for iv in A["domain"] for v in iv), max(abs(v) for iv in B["domain"] for v in iv),
              max(abs(s) * (hi - lo) for lo, hi in A["domain"]))
    exact = sc.get("cls") == "exact"
    # recomputed from the scenario (a shrunk scenario may have lost its user-supplied delta)
    coord_sensitive = A["algo"] == "Zooming" or (A["algo"] == "DOO" and (A.get("params") or {}).get("delta") is None)
    sc = dict(sc, coord_sensitive=coord_sensitive)
    if exact and any(x != 0 for x in b):
        # Bit budget of a translation (DESIGN 5.16), decided for the whole run from the depth of the trees it grew:
        # the box is dyadic (lo = k/4, width 2^j) and the partition splits at midpoints, so every cell bound at depth
        # <= D is a multiple of 2^-(D + 2 - min(j, 0)) and every centre of one more bit.  If those fractional bits plus
        # the integer bits of the largest coordinate of either world fit the mantissa with two bits to spare, every
        # midpoint is computed without rounding in both worlds and the mapped logs must agree bit for bit.  Otherwise
        # two correct runs may round differently, and the run is compared with tolerance (or, for the algorithms that
        # compare coordinates, not judged).  VROOM's uniform samples are never inside the budget.
        D = max(a1.max_depth, b1.max_depth) + 1
        jmin = min([0] + [int(math.floor(math.log2(hi - lo))) for lo, hi in A["domain"]])
        q = D + 2 - jmin + 1
        big = max(abs(v) for dom in (A["domain"], B["domain"]) for iv in dom for v in iv)
        m = max(math.frexp(max(big, 1.0))[1], 1)
        in_budget = A["algo"] != "VROOM" and (q + m + 2 <= 53)
        if not in_budget:
            exact = False
            stats["exact-twins-outside-bit-budget"] += 1
            if sc.get("coord_sensitive"):
                stats["not-judged(coordinate-sensitive-outside-budget)"] += 1
                return _result(sc, rounds, dg, seam, None, stats)
    if not exact and sc.get("depth_guard") is not None and max(a1.max_depth, b1.max_depth) > sc["depth_guard"]:
        stats["not-judged(cells-near-float-resolution)"] += 1
        return _result(sc, rounds, dg, seam, None, stats)
    seq = list(zip(oa["points"], ob["points"]))
    if isinstance(oa["final"], list) and isinstance(ob["final"], list):
        seq.append((oa["final"], ob["final"]))
    elif oa["final"] != ob["final"]:
        return _result(sc, rounds, dg, seam, ("C16", clause, "recommendations differ in kind: %r vs %r" % (oa["final"], ob["final"]), rounds))
    for k, (p, q) in enumerate(seq):
        if not (isinstance(p, list) and isinstance(q, list)) or len(p) != len(q):
            if p != q:
                return _result(sc, rounds, dg, seam, ("C16", clause, "event %d: %r vs %r" % (k + 1, p, q), k + 1))
            continue
        for x, y, bb in zip(p, q, b):
            want = s * x + bb
            if exact:
                if y != want:
                    return _result(sc, rounds, dg, seam, ("C16", clause, "event %d: image of %s under x -> %r*x + %r is %s, the run on the image domain gave %s" % (
                        k + 1, fhex(x), s, bb, fhex(want), fhex(y)), k + 1))
                continue
            if abs(y - want) > 1e-9 * mag:
                return _result(sc, rounds, dg, seam, ("C16", clause, "event %d: image of %s is %s, the run on the image domain gave %s (tolerance 1e-9*%g)" % (
                    k + 1, fhex(x), fhex(want), fhex(y), mag), k + 1))
    stats["exact-twins" if exact else "tolerance-twins"] += 1
    return _result(sc, rounds, dg, seam, None, stats)


def run_c14_hashseed(sc):
    """Replay form of a hash-seed violation: the inner scenario in two fresh interpreters."""
    import json
    import tempfile
    import subprocess
    from . import runner
    inner = copy.deepcopy(sc)
    hs = inner.pop("env")["hashseed"]
    with tempfile.NamedTemporaryFile("w", suffix=".json", delete=False) as f:
        json.dump(inner, f, default=runner._json_default)
        path = f.name
    try:
        outs = []
        for h in ("0", hs):
            env = dict(os.environ, PYTHONHASHSEED=h)
            p = subprocess.run([sys.executable, os.path.join(runner.VERIF, "sim", "main.py"), "digest-scenario", "C14", path], env=env,
                               capture_output=True, text=True, timeout=600)
            outs.append(p.stdout.strip().splitlines()[-1] if p.stdout.strip() else p.stderr[-200:])
    finally:
        os.unlink(path)
    viol = None
    if outs[0] != outs[1]:
        viol = ("C14", "hashseed-differs", "log under PYTHONHASHSEED=%s differs from the log under PYTHONHASHSEED=0" % hs, sc["A"]["rounds"])
    return _result(sc, sc["A"]["rounds"], outs[0], None, viol)
