#!/venv/bin/python
"""Large determinism self-test of the simulator (development tool; result in evidence/determinism.json).

For every check, run indices 0..N-1 are executed
  (1) in a pool of 16 worker processes,
  (2) in a pool of 3 worker processes (different assignment of runs to processes, different order),
  (3) in fresh interpreters under PYTHONHASHSEED = 1 and = random,
and the per-run event-log digests must agree.  A mismatch is a harness defect (or, for C14, a
property violation) and is listed."""
import os
import sys
import json
import time
import subprocess
import multiprocessing
from concurrent.futures import ProcessPoolExecutor

VERIF = os.path.dirname(os.path.dirname(os.path.abspath(__file__)))
sys.path.insert(0, VERIF)


def _one(args):
    from sim import runner
    prop, tier, seed, idx = args
    out = {}
    for i in idx:
        sc, res = runner.run_index(prop, tier, seed, i)
        out[i] = res.digest
    return out


def pool_digests(prop, tier, seed, n, workers):
    ctx = multiprocessing.get_context("fork")
    idx = list(range(n))
    # deliberately different chunking per worker count
    step = max(1, n // (workers * 3))
    chunks = [(prop, tier, seed, idx[k:k + step]) for k in range(0, n, step)]
    out = {}
    with ProcessPoolExecutor(max_workers=workers, mp_context=ctx) as ex:
        for d in ex.map(_one, chunks):
            out.update(d)
    return out


def fresh_digests(prop, tier, seed, n, hashseed):
    env = dict(os.environ, PYTHONHASHSEED=hashseed)
    out = {}
    procs = []
    step = max(1, n // 8)
    for k in range(0, n, step):
        idx = ",".join(str(i) for i in range(k, min(n, k + step)))
        procs.append(subprocess.Popen([sys.executable, os.path.join(VERIF, "sim", "main.py"), "digests", prop, tier, str(seed), idx],
                                      env=env, stdout=subprocess.PIPE, stderr=subprocess.PIPE, text=True))
    for p in procs:
        so, se = p.communicate(timeout=3600)
        if p.returncode != 0:
            raise RuntimeError(se[-400:])
        out.update({int(k): v for k, v in json.loads(so.strip().splitlines()[-1]).items()})
    return out


def main():
    from sim import checks
    n = int(sys.argv[1]) if len(sys.argv) > 1 else 400
    seeds = [0, 12345]
    res = {"runs_per_check_per_seed": n, "seeds": seeds, "checks": {}, "mismatches": []}
    t0 = time.time()
    for prop in sorted(checks.CHECKS):
        tot = 0
        for seed in seeds:
            a = pool_digests(prop, "quick", seed, n, 16)
            b = pool_digests(prop, "quick", seed, n, 3)
            c = fresh_digests(prop, "quick", seed, n, "1")
            d = fresh_digests(prop, "quick", seed, n, "random")
            for i in range(n):
                if not (a[i] == b[i] == c[i] == d[i]):
                    res["mismatches"].append({"check": prop, "seed": seed, "run": i})
            tot += n
        res["checks"][prop] = {"runs": tot, "executions": tot * 4}
        print(prop, "ok" if not [m for m in res["mismatches"] if m["check"] == prop] else "MISMATCH", flush=True)
    res["wall_s"] = round(time.time() - t0, 1)
    json.dump(res, open(os.path.join(VERIF, "reports", "determinism.json"), "w"), indent=1)
    print("mismatches:", len(res["mismatches"]))
    return 1 if res["mismatches"] else 0


if __name__ == "__main__":
    sys.exit(main())
