#!/venv/bin/python
"""import_seed.py <Cxx> : copy /tmp/seed-<Cxx>/_out/change{k} to /verif/seeded/<Cxx>-{k}/ and confirm them."""
import os, sys, json, shutil, subprocess
VERIF = os.path.dirname(os.path.dirname(os.path.abspath(__file__)))
sys.path.insert(0, os.path.join(VERIF, "tools"))
import seeded
tag = sys.argv[1]
pid = tag[:3]
src = "/tmp/seed-%s/_out" % tag
for k in sorted(os.listdir(src)):
    d = os.path.join(src, k)
    if not os.path.isdir(d) or not os.path.exists(os.path.join(d, "patch.diff")):
        continue
    sid = "%s-%s" % (tag, k.replace("change", ""))
    dst = os.path.join(VERIF, "seeded", sid)
    os.makedirs(dst, exist_ok=True)
    for f in ("patch.diff", "demo.py", "README.md"):
        if os.path.exists(os.path.join(d, f)):
            shutil.copy(os.path.join(d, f), dst)
    conf = seeded.confirm(dst)
    readme = open(os.path.join(dst, "README.md")).read() if os.path.exists(os.path.join(dst, "README.md")) else ""
    meta = {"id": sid, "property": pid, "source": "independent sub-agent given only the property text and a scratch worktree of /repo",
            "needs_to_manifest": readme.strip()[:1500],
            "confirmed_by": "tools/seeded.py confirm: scratch worktree of /repo HEAD + patch: full test suite, demo.py; then demo.py without the patch",
            "confirmation": conf}
    json.dump(meta, open(os.path.join(dst, "meta.json"), "w"), indent=1)
    print(sid, "confirmed" if conf["confirmed"] else "NOT CONFIRMED", conf.get("tests_tail"), conf["demo_exit_with_patch"], conf["demo_exit_without_patch"])
