#!/venv/bin/python
"""Regenerates /verif/MANIFEST.json from the registry of checks (sim/checks.py)."""
import json, os, sys
sys.path.insert(0, os.path.dirname(os.path.dirname(os.path.abspath(__file__))))
from sim import checks

ALL = ["C%02d" % i for i in range(1, 18)]
NA = {
    "C17": "pure function of its input over a continuum (f(x) <= fmax for every real x): no schedule, clock, fault, interleaving or "
           "history to simulate; needs an enclosure (interval/SMT) argument, a different technique (DESIGN.md 5.17)",
}
PENDING = "check designed in DESIGN.md section 5 but not built yet at this commit (in progress)"

man = {
    "version": 1,
    "setup_cmd": "/venv/bin/python -c \"import numpy, sys; sys.path.insert(0, '/repo'); import PyXAB; print('ok', numpy.__version__)\"",
    "hooks": {
        "guard": "PYXAB_VERIF",
        "enable": "no source hook exists: every seam is reached from outside (np.random module attributes, the partition= and algo= "
                  "constructor arguments, sys.monitoring); checks import /repo's working tree as it is",
        "baseline_off_cmd": "cd /repo && /venv/bin/python -m pytest -ra -q -p no:cacheprovider --timeout=900 --continue-on-collection-errors",
        "source_commits": [],
        "add_only": True,
    },
    "engines": [{
        "name": "pyxab-sim", "path": "sim/",
        "serves_properties": sorted(checks.CHECKS),
        "kind_free_text": "deterministic simulation: seeded ask/tell environment + owned numpy.random seam + recording partition/learner "
                          "subclasses + step-count watchdog; per-event oracles (shadow tree, reward ledger, nondeterministic spec); "
                          "seeded swarm search, minimised explicit replay files",
    }],
    "checks": [],
    "not_applicable": [],
    "notes": "bin/check <id> --tier quick|thorough; exit 0 held / 1 VIOLATION / 2 harness trouble. known_findings.json lists recorded "
             "defects (KNOWN-FINDING lines) and repaired ones (fixed:). See DESIGN.md.",
}
for pid in ALL:
    c = checks.CHECKS.get(pid)
    if c is None:
        man["not_applicable"].append({"property_id": pid, "reason": NA.get(pid, PENDING)})
        continue
    man["checks"].append({
        "property_id": pid,
        "quick_cmd": "bin/check %s --tier quick" % pid,
        "thorough_cmd": "bin/check %s --tier thorough" % pid,
        "evidence_file": "evidence/%s.json" % pid,
        "replay_cmd_template": "bin/replay {path}",
        "engine": "pyxab-sim",
        "level_claimed": {"category": c.level, "text": c.level_text, "design_ref": c.design_ref},
        "level_note": c.level_note,
        "technique": c.technique + ("" if "fault" in c.technique else
                                    " - seeded search over histories with injected faults (forced end-point / extreme draws at the "
                                    "np.random seam, adversarial reward programs, interjected and mid-round queries, neighbour "
                                    "instances), minimised replayable counterexamples"),
    })
json.dump(man, open(os.path.join(os.path.dirname(os.path.dirname(os.path.abspath(__file__))), "MANIFEST.json"), "w"), indent=1)
print("MANIFEST.json:", len(man["checks"]), "checks,", len(man["not_applicable"]), "not claimed")
