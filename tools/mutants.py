#!/venv/bin/python
"""Sensitivity self-test: single-edit mutants of PyXAB, each tagged with the property whose
quick check is expected to report it.  Development tool (not a registered command):

    tools/mutants.py [--only C05,C06] [--runs N] [--tests] [--jobs J]

Each mutant is applied to a scratch copy of /repo (under $TMPDIR, removed afterwards),
VERIF_REPO points the check at it.  --tests additionally runs the repository's own test
suite on the mutant (a realistic mutant passes it).  Result: evidence/mutants.json."""
import os
import sys
import json
import shutil
import tempfile
import subprocess
from concurrent.futures import ThreadPoolExecutor

VERIF = os.path.dirname(os.path.dirname(os.path.abspath(__file__)))
REPO = "/repo"

# (id, property, file, old, new)
M = [
    # ---- C01
    ("c01-node-cpoint-abs", "C01", "PyXAB/partition/Node.py", "point.append((x[0] + x[1]) / 2)", "point.append(x[0] + x[1] / 2)"),
    ("c01-doo-delta-dropped", "C01", "PyXAB/algos/DOO.py", "        else:\n            self.delta = delta\n", ""),
    ("c01-soo-spin", "C01", "PyXAB/algos/SOO.py", "while h <= min(self.partition.get_depth(), self.h_max):", "while h < min(self.partition.get_depth(), self.h_max):"),
    ("c01-vroom-sample-outside", "C01", "PyXAB/algos/VROOM.py", "point = np.random.uniform(domain[0], domain[1])", "point = np.random.uniform(domain[0], domain[1] + (domain[1] - domain[0]))"),
    ("c01-zooming-return-tuple", "C01", "PyXAB/algos/Zooming.py", "return self.best_arm.get_point()", "return tuple(self.best_arm.get_point())"),
    # ---- C02
    ("c02-binary-midpoint", "C02", "PyXAB/partition/BinaryPartition.py", "domain2[dim] = [(selected_dim[0] + selected_dim[1]) / 2, selected_dim[1]]",
     "domain2[dim] = [(selected_dim[0] + selected_dim[1]) / 2 + 1e-12 * (selected_dim[1] - selected_dim[0]), selected_dim[1]]"),
    ("c02-rkary-last-boundary", "C02", "PyXAB/partition/RandomKaryPartition.py", "            else:\n                boundary_point_1 = selected_dim[1]",
     "            else:\n                boundary_point_1 = np.random.uniform(boundary_point_0, selected_dim[1])"),
    ("c02-dimbinary-comb", "C02", "PyXAB/partition/DimensionBinaryPartition.py", "comb2 = [split_point, selected_dim[1]]", "comb2 = [selected_dim[0], selected_dim[1]]"),
    ("c02-kary-linspace", "C02", "PyXAB/partition/KaryPartition.py", "num=self.K + 1)", "num=self.K + 1, endpoint=False)"),
    ("c02-node-centre", "C02", "PyXAB/partition/Node.py", "point.append((x[0] + x[1]) / 2)", "point.append(x[0] + (x[1] - x[0]) / 3)"),
    # ---- C03
    ("c03-kary-alias", "C03", "PyXAB/partition/KaryPartition.py", "self.node_list.append(list(new_nodes))", "self.node_list.append(new_nodes)"),
    ("c03-binary-index", "C03", "PyXAB/partition/BinaryPartition.py", "index=2 * parent.get_index() - 1,", "index=2 * parent.get_index() + 1,"),
    ("c03-doo-newlayer", "C03", "PyXAB/algos/DOO.py", "newlayer=(max_node.get_depth() >= self.partition.get_depth()),", "newlayer=True,"),
    ("c03-hct-reexpand", "C03", "PyXAB/algos/HCT.py", "            end_node.get_children() is None\n            and end_node.get_visited_times()", "            end_node.get_visited_times()"),
    ("c03-rbinary-depth", "C03", "PyXAB/partition/RandomBinaryPartition.py", "            self.node_list.append(new_deepest)\n            self.depth += 1", "            self.node_list.append(new_deepest)\n            self.depth += 1 if len(self.node_list) < 6 else 0"),
    # ---- C04
    ("c04-hct-credit-path", "C04", "PyXAB/algos/HCT.py", "        node = path[-1]\n", "        node = path[-1]\n        if len(path) > 3:\n            path[-2].update_reward(reward)\n"),
    ("c04-hoo-credit-leaf-only", "C04", "PyXAB/algos/HOO.py", "        for node in path:\n            # Update", "        for node in path[-1:]:\n            # Update"),
    ("c04-poo-route-first", "C04", "PyXAB/algos/POO.py", "            self.V_algo[self.algo_counter].receive_reward(time, reward)", "            self.V_algo[0].receive_reward(time, reward)"),
    ("c04-vhct-minvar", "C04", "PyXAB/algos/VHCT.py", "self.minvariance = 1e-3", "self.minvariance = 1e-2"),
    ("c04-stosoo-drop-dup", "C04", "PyXAB/algos/StoSOO.py", "        self.rewards.append(reward)\n        self.mean_reward = np.sum", "        if reward not in self.rewards:\n            self.rewards.append(reward)\n        self.mean_reward = np.sum"),
    ("c04-zooming-mean", "C04", "PyXAB/algos/Zooming.py", ") / (self.pulled_times[self.best_arm] + 1)", ") / (self.pulled_times[self.best_arm] + 2)"),
    ("c04-node-class-attr", "C04", "PyXAB/algos/HCT.py", "        self.rewards = []\n        self.mean_reward = 0\n\n    def update_reward", "        self.mean_reward = 0\n\n    rewards = []\n\n    def update_reward"),
    # ---- C05
    ("c05-hct-depth-exp", "C05", "PyXAB/algos/HCT.py", "+ nu * (rho ** self.get_depth())", "+ nu * (rho ** (self.get_depth() + 1))"),
    ("c05-hct-drop-nu", "C05", "PyXAB/algos/HCT.py", "                + nu * (rho ** self.get_depth())\n", ""),
    ("c05-hoo-minmax", "C05", "PyXAB/algos/HOO.py", "node.update_b_value(np.minimum(node.get_u_value(), tempB))", "node.update_b_value(np.maximum(node.get_u_value(), tempB))"),
    ("c05-hoo-ucb-const", "C05", "PyXAB/algos/HOO.py", "UCB = math.sqrt(2 * math.log(rounds) / self.visited_times)", "UCB = math.sqrt(math.log(rounds) / self.visited_times)"),
    ("c05-hct-select-min", "C05", "PyXAB/algos/HCT.py", "if child.get_b_value() >= maxchild.get_b_value():", "if child.get_b_value() < maxchild.get_b_value():"),
    ("c05-hct-no-backward", "C05", "PyXAB/algos/HCT.py", "        self.updateBackwardTree()\n\n        if (\n            end_node.get_children() is None", "        if (\n            end_node.get_children() is None"),
    ("c05-vhct-width", "C05", "PyXAB/algos/VHCT.py", "                    * 2\n                    * self.variance", "                    * self.variance"),
    ("c05-hct-no-refresh", "C05", "PyXAB/algos/HCT.py", "        if self.iteration == compute_t_plus(self.iteration):\n            self.updateUvalueTree()", "        if False:\n            self.updateUvalueTree()"),
    ("c05-hct-stop-rule", "C05", "PyXAB/algos/HCT.py", "curr_node.get_visited_times() >= self.tau_h[curr_node.get_depth()]", "curr_node.get_visited_times() >= 2 * self.tau_h[curr_node.get_depth()] + 2"),
    # ---- C06
    ("c06-hoo-truncation", "C06", "PyXAB/algos/HOO.py", "(np.log(self.rounds) / 2 - np.log(1 / self.nu))", "(np.log(self.rounds) - np.log(1 / self.nu))"),
    ("c06-hct-expand-early", "C06", "PyXAB/algos/HCT.py", "and end_node.get_visited_times() >= self.tau_h[en_depth]", "and end_node.get_visited_times() + 1 >= self.tau_h[en_depth]"),
    ("c06-vhct-reexpand", "C06", "PyXAB/algos/VHCT.py", "            end_node.get_children() is None\n            and end_node.get_visited_times()", "            end_node.get_visited_times()"),
    ("c06-hct-tau-exp", "C06", "PyXAB/algos/HCT.py", "* self.rho ** (-2 * i)", "* self.rho ** (-i)"),
    # ---- C07
    ("c07-doo-default-zero", "C07", "PyXAB/algos/DOO.py", "self.reward = -np.inf", "self.reward = 0"),
    ("c07-soo-reco-min", "C07", "PyXAB/algos/SOO.py", "            for node in node_list[h]:\n                if node.get_reward() >= max_value:", "            for node in node_list[h]:\n                if node.visited and -node.get_reward() >= max_value:"),
    ("c07-sequool-reco-first", "C07", "PyXAB/algos/SequOOL.py", "            if node.get_reward() >= max_value:\n                max_node = node", "            if node.get_reward() > max_value + 0.3:\n                max_node = node"),
    ("c07-stosoo-reco-shallow", "C07", "PyXAB/algos/StoSOO.py", "max_depth = self.partition.get_depth()\n", "max_depth = max(self.partition.get_depth() - 1, 0)\n"),
    ("c07-stroquool-reco-min", "C07", "PyXAB/algos/StroquOOL.py", "        for node in candidates:\n            node.compute_mean_reward()\n            if node.get_mean_reward() >= max_value:", "        for node in candidates:\n            node.compute_mean_reward()\n            if node.get_mean_reward() >= max_value and node.get_depth() < 3:"),
    ("c07-poo-reco-argmin", "C07", "PyXAB/algos/POO.py", "max_param = np.argmax(V_reward)", "max_param = np.argmax(np.abs(V_reward))"),
    ("c09-gpo-final-last", "C09", "PyXAB/algos/GPO.py", "                maxind = np.argmax(np.array(self.V_reward))\n                self.goodx = self.V_x[maxind]", "                maxind = len(self.V_reward) - 1\n                self.goodx = self.V_x[maxind]"),
    ("c07-gpo-reco-argmin", "C07", "PyXAB/algos/GPO.py", "        return self.V_x[np.argmax(np.array(self.V_reward))]", "        return self.V_x[np.argmax(np.array(self.V_reward[:-1] + [np.inf]))]"),
    # ---- C08
    ("c08-soo-no-vmax-EQUIVALENT", "C08", "PyXAB/algos/SOO.py", "                if max_value >= v_max:\n", "                if True:\n"),
    ("c08-soo-min-leaf", "C08", "PyXAB/algos/SOO.py", "                            node.get_reward() >= max_value\n                        ):  # find", "                            node.get_reward() >= max_value or max_node is None\n                        ) and h % 3 != 2 or max_node is None:  # find"),
    ("c08-stosoo-k-plus-one", "C08", "PyXAB/algos/StoSOO.py", "get_visited_times() < self.k:", "get_visited_times() <= self.k:"),
    ("c08-stosoo-b-width", "C08", "PyXAB/algos/StoSOO.py", "np.log(n * k / delta) / (2 * self.visited_times)", "np.log(n * k / delta) / (self.visited_times)"),
    ("c08-doo-b-depth", "C08", "PyXAB/algos/DOO.py", "            delta = self.delta(h)\n", "            delta = self.delta(min(h, 3))\n"),
    ("c08-doo-two-expansions", "C08", "PyXAB/algos/DOO.py", "                h = 0\n", "                h = 0\n                if max_node.get_depth() == 4:\n                    self.partition.make_children(max_node.get_children()[0], newlayer=(max_node.get_depth() + 1 >= self.partition.get_depth()))\n"),
    ("c08-soo-cap-ignored", "C08", "PyXAB/algos/SOO.py", "while h <= min(self.partition.get_depth(), self.h_max):", "while h <= min(self.partition.get_depth(), self.h_max + 1):"),
    # ---- C09
    ("c09-gpo-rollover-in-pull", "C09", "PyXAB/algos/GPO.py", "        if self.counter >= 2 * self.half_phase_length:\n            self.phase += 1\n            self.counter = 0\n", "        if self.counter >= 2 * self.half_phase_length + 1:\n            self.phase += 1\n            self.counter = 0\n"),
    ("c09-gpo-rho-grid", "C09", "PyXAB/algos/GPO.py", "rho = self.rhomax ** (2 * self.N / (2 * self.phase + 1))", "rho = self.rhomax ** (2 * self.N / (2 * self.phase + 3))"),
    ("c09-gpo-N-formula", "C09", "PyXAB/algos/GPO.py", "np.log((self.rounds / 2) / np.log(self.rounds / 2))", "np.log((self.rounds) / np.log(self.rounds / 2))"),
    ("c09-gpo-score-offbyone", "C09", "PyXAB/algos/GPO.py", ") / (self.counter - self.half_phase_length + 1)", ") / (self.counter - self.half_phase_length + 2)"),
    ("c09-gpo-final-goodx", "C09", "PyXAB/algos/GPO.py", "                maxind = np.argmax(np.array(self.V_reward))\n                self.goodx = self.V_x[maxind]", "                maxind = np.argmin(np.array(self.V_reward))\n                self.goodx = self.V_x[maxind]"),
    # ---- C10
    ("c10-poo-score-counter", "C10", "PyXAB/algos/POO.py", "* np.ceil(self.n / self.N) + reward\n            ) / (np.ceil(self.n / self.N) + 1)", "* np.ceil(self.n / self.N) + reward\n            ) / (np.ceil(self.n / self.N) + 2)"),
    ("c10-poo-route-zero", "C10", "PyXAB/algos/POO.py", "            self.V_algo[self.algo_counter].receive_reward(time, reward)", "            self.V_algo[0].receive_reward(time, reward)"),
    ("c10-poo-n-increment", "C10", "PyXAB/algos/POO.py", "                self.n = self.n + self.N\n", "                self.n = self.n + self.N + 1\n"),
    ("c10-poo-times", "C10", "PyXAB/algos/POO.py", "            self.Times[self.algo_counter] += 1", "            self.Times[self.algo_counter] += 1 if self.algo_counter else 2"),
    ("c10-poo-rho-dup", "C10", "PyXAB/algos/POO.py", "rho = self.rhomax ** (2 * self.N / (2 * self.phase + 1))", "rho = self.rhomax ** (2 * self.N / (2 * (self.phase // 2) + 1))"),
    # ---- C11
    ("c11-zooming-handover", "C11", "PyXAB/algos/Zooming.py", "                        arm_assigned\n                        or point[dim]", "                        point[dim]"),
    ("c11-zooming-index", "C11", "PyXAB/algos/Zooming.py", "arm_r_t = self.average_rewards[arm] + 2 * np.sqrt(", "arm_r_t = self.average_rewards[arm] + np.sqrt("),
    ("c11-zooming-refine-rule", "C11", "PyXAB/algos/Zooming.py", "<= self.nu * self.rho ** parent.get_depth()", "<= self.nu * self.rho ** (parent.get_depth() + 1)"),
    ("c11-zooming-argmin", "C11", "PyXAB/algos/Zooming.py", "            if arm_r_t >= maximum_r_t:", "            if arm_r_t >= maximum_r_t and self.pulled_times[arm] < 9:"),
    ("c11-zooming-phase", "C11", "PyXAB/algos/Zooming.py", "            self.next_end_time += 2 ** self.phase", "            self.next_end_time += 2 * self.phase"),
    # ---- C12
    ("c12-sequool-budget", "C12", "PyXAB/algos/SequOOL.py", "                            self.budget = math.floor(self.h_max / self.curr_depth)\n                        self.curr_node = max_node", "                            self.budget = math.floor(self.h_max / self.curr_depth) + 1\n                        self.curr_node = max_node"),
    ("c12-sequool-hmax", "C12", "PyXAB/algos/SequOOL.py", "self.h_max = math.floor(n / self.harmonic_series_sum(n))", "self.h_max = math.floor(n / self.harmonic_series_sum(n)) - 1"),
    ("c12-sequool-argmin", "C12", "PyXAB/algos/SequOOL.py", "                        if node.get_reward() >= max_value:\n                            max_value = node.get_reward()\n                            max_node = node\n\n                if max_node.get_children()", "                        if node.get_reward() >= max_value or num == 2:\n                            max_value = node.get_reward()\n                            max_node = node\n\n                if max_node.get_children()"),
    ("c12-sequool-loc-skip", "C12", "PyXAB/algos/SequOOL.py", "                    if self.loc == len(max_node.get_children()) - 1:", "                    if self.loc >= len(max_node.get_children()) - 1 - (1 if self.curr_depth == 3 and len(max_node.get_children()) > 2 else 0):"),
    # ---- C13
    ("c13-vroom-rank-asc", "C13", "PyXAB/algos/VROOM.py", "rank = sorted(nodes, key=rank_fun, reverse=True)", "rank = sorted(nodes, key=rank_fun, reverse=False)"),
    ("c13-vroom-prob", "C13", "PyXAB/algos/VROOM.py", "self.prob.append(1 / (h * node_list[h][l].get_rank()[-1] * self.const))", "self.prob.append(1 / (h * (2 ** h + 1 - node_list[h][l].get_rank()[-1]) * self.const))"),
    ("c13-vroom-lcb", "C13", "PyXAB/algos/VROOM.py", "return node.get_mean_reward() - np.sqrt(", "return node.get_mean_reward() + np.sqrt("),
    ("c13-vroom-wrong-node", "C13", "PyXAB/algos/VROOM.py", "        node = node_list[idx[0]][idx[1]]\n\n        # sample point", "        node = node_list[idx[0]][idx[1] ^ (1 if idx[0] == 3 else 0)]\n\n        # sample point"),
    # ---- C14
    ("c14-hct-class-state", "C14", "PyXAB/algos/HCT.py", "        self.tau_h = [0]  # Threshold on each layer\n", "        self.tau_h = [0]  # Threshold on each layer\n        HCT._count = getattr(HCT, '_count', 0) + 1\n        self.c = c * (1 + 0.01 * (HCT._count > 1))\n"),
    ("c14-partition-mutates-domain", "C14", "PyXAB/partition/Partition.py", "        self.domain = domain\n", "        self.domain = domain\n        domain[0][0] = domain[0][0] + 0.0 if len(domain) < 2 else domain[0][0] * 1.0000001\n"),
    ("c14-soo-time-tiebreak", "C14", "PyXAB/algos/SOO.py", "                            node.get_reward() >= max_value\n                        ):  # find", "                            node.get_reward() > max_value or (node.get_reward() == max_value and __import__('time').time_ns() % 2 == 0)\n                        ):  # find"),
    ("c14-zooming-hash-order", "C14", "PyXAB/algos/Zooming.py", "        for arm in self.active_points.keys():", "        for arm in sorted(self.active_points.keys(), key=lambda a: hash(str(a.get_point())) % 7):"),
    ("c14-node-shared-default", "C14", "PyXAB/algos/StoSOO.py", "        self.rewards = []\n        self.mean_reward = 0\n", "        self.rewards = globals().setdefault('_shared_rewards', []) if depth == 1 and index == 1 else []\n        self.mean_reward = 0\n"),
    ("c14-doo-id-tiebreak", "C14", "PyXAB/algos/DOO.py", "                        if node.get_b_value() >= max_value:", "                        if node.get_b_value() > max_value or (node.get_b_value() == max_value and (id(node) >> 4) % 2 == 0):"),
    # ---- C15
    ("c15-hct-uses-time", "C15", "PyXAB/algos/HCT.py", "        self.curr_node, self.path = self.optTraverse()\n", "        self.iteration = max(self.iteration, time)\n        self.curr_node, self.path = self.optTraverse()\n"),
    ("c15-zooming-query-mutates", "C15", "PyXAB/algos/Zooming.py", "        return self.pull(0)", "        self.phase += 0 if self.time % 7 else 1\n        return self.pull(0)"),
    ("c15-sequool-time", "C15", "PyXAB/algos/SequOOL.py", "        if self.curr_depth <= self.h_max:\n            if self.curr_depth == 0:", "        if self.curr_depth <= self.h_max and t != 40:\n            if self.curr_depth == 0:"),
    ("c15-poo-query-cursor", "C15", "PyXAB/algos/POO.py", "        point = self.V_algo[max_param].pull(time=0)", "        point = self.V_algo[max_param].pull(time=0)\n        self.counter += 1 if len(self.V_algo) > 5 else 0"),
    # ---- C16
    ("c16-node-abs-centre", "C16", "PyXAB/partition/Node.py", "point.append((x[0] + x[1]) / 2)", "point.append((x[0] + x[1]) / 2 if x[0] >= 0 else x[0] + (x[1] - x[0]) * 0.5000001)"),
    ("c16-binary-dim-by-width", "C16", "PyXAB/partition/BinaryPartition.py", "        dim = np.random.randint(0, len(parent_domain))\n", "        dim = np.random.randint(0, len(parent_domain))\n        if len(parent_domain) > 1 and parent_domain[0][1] > 3:\n            dim = 0\n"),
    ("c16-zooming-abs", "C16", "PyXAB/algos/Zooming.py", "<= self.nu * self.rho ** parent.get_depth()", "<= self.nu * self.rho ** parent.get_depth() * (1 if abs(parent.get_cpoint()[0]) < 5 else 2)"),
    ("c16-rbinary-split-abs", "C16", "PyXAB/partition/RandomBinaryPartition.py", "split_point = np.random.uniform(selected_dim[0], selected_dim[1])", "split_point = np.random.uniform(selected_dim[0], selected_dim[1]) if selected_dim[1] - selected_dim[0] > 1e-3 else (selected_dim[0] + selected_dim[1]) / 2"),
]


def apply(root, rel, old, new):
    p = os.path.join(root, rel)
    s = open(p).read()
    if s.count(old) < 1:
        return False
    open(p, "w").write(s.replace(old, new, 1))
    return True


def run_one(m, runs, tests):
    mid, prop, rel, old, new = m
    tmp = tempfile.mkdtemp(prefix="pyxab-mut-")
    try:
        shutil.copytree(os.path.join(REPO, "PyXAB"), os.path.join(tmp, "PyXAB"), ignore=shutil.ignore_patterns("__pycache__", "*.pkl"))
        if not apply(tmp, rel, old, new):
            return {"id": mid, "property": prop, "status": "PATTERN-NOT-FOUND"}
        env = dict(os.environ, VERIF_REPO=tmp, VERIF_WORKERS=os.environ.get("MUT_WORKERS", "4"))
        if prop != "C14":
            env["VERIF_NO_FRESH"] = "1"
        out = {"id": mid, "property": prop}
        if tests:
            t = subprocess.run(["/venv/bin/python", "-m", "pytest", "-q", "-x", "-p", "no:cacheprovider", "PyXAB/tests"], cwd=tmp,
                               capture_output=True, text=True, timeout=900)
            out["tests_pass"] = t.returncode == 0
        p = subprocess.run([os.path.join(VERIF, "bin", "check"), prop, "--tier", "quick", "--runs", str(runs)], env=env,
                           capture_output=True, text=True, timeout=1800, cwd=VERIF)
        out["exit"] = p.returncode
        sigs = [l.strip() for l in p.stdout.splitlines() if l.strip().startswith("signature=") or "further signature" in l]
        out["signatures"] = [s[:140] for s in sigs[:3]]
        out["status"] = "KILLED" if p.returncode == 1 else ("HARNESS(%d)" % p.returncode if p.returncode else "SURVIVED")
        if p.returncode not in (0, 1):
            out["tail"] = (p.stdout + p.stderr)[-600:]
        return out
    finally:
        shutil.rmtree(tmp, ignore_errors=True)


def main():
    a = sys.argv[1:]
    only = None
    runs = 400
    tests = "--tests" in a
    jobs = 4
    if "--only" in a:
        only = a[a.index("--only") + 1].split(",")
    if "--runs" in a:
        runs = int(a[a.index("--runs") + 1])
    if "--jobs" in a:
        jobs = int(a[a.index("--jobs") + 1])
    ms = [m for m in M if only is None or m[1] in only or m[0] in only]
    res = []
    # evidence files are rewritten by the checks: keep the real ones aside
    keep = tempfile.mkdtemp(prefix="pyxab-ev-")
    for f in os.listdir(os.path.join(VERIF, "evidence")):
        shutil.copy(os.path.join(VERIF, "evidence", f), keep)
    try:
        with ThreadPoolExecutor(max_workers=jobs) as ex:
            for out in ex.map(lambda m: run_one(m, runs, tests), ms):
                print("%-28s %-4s %-10s %s %s" % (out["id"], out["property"], out["status"],
                                                 "" if "tests_pass" not in out else ("tests-pass" if out["tests_pass"] else "TESTS-FAIL"),
                                                 (out.get("signatures") or [""])[0][:110]))
                sys.stdout.flush()
                res.append(out)
    finally:
        for f in os.listdir(keep):
            shutil.copy(os.path.join(keep, f), os.path.join(VERIF, "evidence", f))
        shutil.rmtree(keep, ignore_errors=True)
    prev = {}
    path = os.path.join(VERIF, "reports", "mutants.json")
    if os.path.exists(path):
        try:
            prev = {r["id"]: r for r in json.load(open(path))["results"]}
        except Exception:
            prev = {}
    for r in res:
        prev[r["id"]] = r
    allr = [prev[k] for k in sorted(prev)]
    json.dump({"results": allr, "killed": sum(1 for r in allr if r["status"] == "KILLED"), "total": len(allr)}, open(path, "w"), indent=1)
    print("killed %d / %d" % (sum(1 for r in res if r["status"] == "KILLED"), len(res)))


if __name__ == "__main__":
    main()
