#!/venv/bin/python
"""False-alarm test: behaviour-preserving refactorings kept under /verif/refactors/<id>/ (patch.diff, check.py, README.md).

    tools/refactors.py import <tag>        copy /tmp/seed-<tag>/_out/change{k} to refactors/<tag>-{k}, confirm tests + check.py
    tools/refactors.py run [<id> ...] [--runs N] [--props C05,C06]   run quick checks against a scratch copy with the patch; expect exit 0

Results: refactors/RESULTS.json."""
import os, sys, json, shutil, subprocess, tempfile
VERIF = os.path.dirname(os.path.dirname(os.path.abspath(__file__)))
sys.path.insert(0, os.path.join(VERIF, "tools"))
import seeded
ALL = ["C%02d" % i for i in range(1, 17)]
BASE = os.path.join(VERIF, "refactors")


def do_import(tag):
    src = "/tmp/seed-%s/_out" % tag
    for k in sorted(os.listdir(src)):
        d = os.path.join(src, k)
        if not os.path.isdir(d) or not os.path.exists(os.path.join(d, "patch.diff")):
            continue
        rid = "%s-%s" % (tag, k.replace("change", ""))
        dst = os.path.join(BASE, rid)
        os.makedirs(dst, exist_ok=True)
        for f in ("patch.diff", "check.py", "README.md"):
            if os.path.exists(os.path.join(d, f)):
                shutil.copy(os.path.join(d, f), dst)
        t = seeded.scratch(os.path.join(dst, "patch.diff"))
        try:
            env = dict(os.environ, PYTHONPATH=t, PYTHONDONTWRITEBYTECODE="1")
            p = subprocess.run([seeded.PY, "-m", "pytest", "-q", "-p", "no:cacheprovider", "PyXAB/tests"], cwd=t, env=env, capture_output=True, text=True, timeout=1200)
            chk = os.path.join(dst, "check.py")
            q = subprocess.run([seeded.PY, chk], cwd=t, env=env, capture_output=True, text=True, timeout=1200) if os.path.exists(chk) else None
        finally:
            seeded.drop(t)
        meta = {"id": rid, "property": tag[1:4], "tests_pass": p.returncode == 0, "own_check_exit": q.returncode if q else None,
                "source": "independent sub-agent asked for behaviour-preserving refactorings of the code behind this property"}
        json.dump(meta, open(os.path.join(dst, "meta.json"), "w"), indent=1)
        print(rid, "tests", "pass" if meta["tests_pass"] else "FAIL", "own check exit", meta["own_check_exit"])


def do_run(ids, runs, props):
    if not ids:
        ids = sorted(x for x in os.listdir(BASE) if os.path.isdir(os.path.join(BASE, x)))
    rpath = os.path.join(BASE, "RESULTS.json")
    results = json.load(open(rpath)) if os.path.exists(rpath) else {}
    keep = tempfile.mkdtemp(prefix="pyxab-ev-")
    for f in os.listdir(os.path.join(VERIF, "evidence")):
        shutil.copy(os.path.join(VERIF, "evidence", f), keep)
    try:
        for rid in ids:
            d = os.path.join(BASE, rid)
            t = seeded.scratch(os.path.join(d, "patch.diff"))
            try:
                for prop in (props or ALL):
                    env = dict(os.environ, VERIF_REPO=t, VERIF_NO_FRESH="1")
                    cmd = [os.path.join(VERIF, "bin", "check"), prop, "--tier", "quick"] + (["--runs", str(runs)] if runs else [])
                    p = subprocess.run(cmd, env=env, capture_output=True, text=True, timeout=7200, cwd=VERIF)
                    status = "QUIET" if p.returncode == 0 else ("ALARM" if p.returncode == 1 else "HARNESS(%d)" % p.returncode)
                    sigs = [l.strip()[:220] for l in p.stdout.splitlines() if l.strip().startswith("signature=") or l.strip().startswith("detail:") or "HARNESS" in l]
                    results.setdefault(rid, {})[prop] = {"status": status, "signatures": sigs[:4]}
                    if status != "QUIET":
                        print("%-14s %-4s %-10s %s" % (rid, prop, status, " | ".join(sigs[:2])))
                        sys.stdout.flush()
                print("%-14s done: %s" % (rid, ",".join(k for k, v in results[rid].items() if v["status"] != "QUIET") or "all quiet"))
                sys.stdout.flush()
            finally:
                seeded.drop(t)
            # other lanes may be writing too: merge with what is on disk
            try:
                disk = json.load(open(rpath)) if os.path.exists(rpath) else {}
            except Exception:
                disk = {}
            for k2, v2 in results.items():
                disk.setdefault(k2, {}).update(v2)
            json.dump(disk, open(rpath, "w"), indent=1, sort_keys=True)
    finally:
        for f in os.listdir(keep):
            shutil.copy(os.path.join(keep, f), os.path.join(VERIF, "evidence", f))
        shutil.rmtree(keep, ignore_errors=True)


if __name__ == "__main__":
    a = sys.argv[1:]
    if a and a[0] == "import":
        os.makedirs(BASE, exist_ok=True)
        do_import(a[1])
    elif a and a[0] == "run":
        runs = None; props = None; ids = []
        i = 1
        while i < len(a):
            if a[i] == "--runs": runs = int(a[i + 1]); i += 2
            elif a[i] == "--props": props = a[i + 1].split(","); i += 2
            else: ids.append(a[i]); i += 1
        do_run(ids, runs, props)
    else:
        print(__doc__)
