#!/venv/bin/python
"""Evaluate the independently written breaking changes kept under /verif/seeded/<id>/.

    tools/seeded.py confirm <dir>      : tests pass + demo fails with the patch, demo passes without (scratch copy)
    tools/seeded.py run [<id> ...] [--tier quick] [--props C05,C06] : run the property's check (and optionally others)
                                         against a scratch copy with the patch applied; expect exit 1

Scratch copies live under $TMPDIR and are removed immediately.  Results: seeded/RESULTS.json."""
import os
import sys
import json
import shutil
import tempfile
import subprocess
from concurrent.futures import ThreadPoolExecutor

VERIF = os.path.dirname(os.path.dirname(os.path.abspath(__file__)))
REPO = "/repo"
PY = "/venv/bin/python"


def scratch(patch=None):
    tmp = tempfile.mkdtemp(prefix="pyxab-seed-")
    subprocess.run(["git", "-C", REPO, "worktree", "add", "--detach", "-f", tmp, "HEAD"], check=True, capture_output=True)
    if patch:
        p = subprocess.run(["git", "-C", tmp, "apply", os.path.abspath(patch)], capture_output=True, text=True)
        if p.returncode != 0:
            drop(tmp)
            raise RuntimeError("patch does not apply: " + p.stderr[-300:])
    return tmp


def drop(tmp):
    subprocess.run(["git", "-C", REPO, "worktree", "remove", "--force", tmp], capture_output=True)
    shutil.rmtree(tmp, ignore_errors=True)


def confirm(d):
    out = {}
    patch = os.path.join(d, "patch.diff")
    demo = os.path.abspath(os.path.join(d, "demo.py"))
    t = scratch(patch)
    try:
        env = dict(os.environ, PYTHONPATH=t, PYTHONDONTWRITEBYTECODE="1")
        p = subprocess.run([PY, "-m", "pytest", "-q", "-p", "no:cacheprovider", "PyXAB/tests"], cwd=t, env=env, capture_output=True, text=True, timeout=1200)
        out["tests_pass_with_patch"] = p.returncode == 0
        out["tests_tail"] = p.stdout.strip().splitlines()[-1] if p.stdout.strip() else ""
        q = subprocess.run([PY, demo], cwd=t, env=env, capture_output=True, text=True, timeout=600)
        out["demo_exit_with_patch"] = q.returncode
        out["demo_output_with_patch"] = (q.stdout + q.stderr)[-400:]
    finally:
        drop(t)
    t = scratch(None)
    try:
        env = dict(os.environ, PYTHONPATH=t, PYTHONDONTWRITEBYTECODE="1")
        q = subprocess.run([PY, demo], cwd=t, env=env, capture_output=True, text=True, timeout=600)
        out["demo_exit_without_patch"] = q.returncode
    finally:
        drop(t)
    out["confirmed"] = bool(out["tests_pass_with_patch"] and out["demo_exit_with_patch"] == 1 and out["demo_exit_without_patch"] == 0)
    return out


def run_check(d, prop, tier, runs=None):
    t = scratch(os.path.join(d, "patch.diff"))
    try:
        env = dict(os.environ, VERIF_REPO=t, VERIF_WORKERS=os.environ.get("SEED_WORKERS", "8"))
        cmd = [os.path.join(VERIF, "bin", "check"), prop, "--tier", tier]
        if runs:
            cmd += ["--runs", str(runs)]
        p = subprocess.run(cmd, env=env, capture_output=True, text=True, timeout=7200, cwd=VERIF)
        sigs = [l.strip()[:200] for l in p.stdout.splitlines() if l.strip().startswith("signature=") or "further signature" in l]
        out = {"property": prop, "exit": p.returncode, "signatures": sigs[:4],
               "tail": "" if p.returncode in (0, 1) else (p.stdout + p.stderr)[-500:]}
        # every replay file printed must (i) fail again, as recorded, against the changed tree and (ii) be quiet against /repo
        # itself: the minimised history is a legal use of the library, so an alarm there would be a false alarm of the oracle
        # (or a defect of the unchanged tree that the batch does not happen to reach)
        rps = [l.split("replay=", 1)[1].strip() for l in p.stdout.splitlines() if l.startswith("VIOLATION ") and "replay=" in l]
        rep = {"files": len(rps), "reproduced_on_changed_tree": 0, "quiet_on_unchanged_tree": 0, "problems": []}
        for rp in rps[:3]:
            if "/findings/" in rp:
                continue
            a = subprocess.run([os.path.join(VERIF, "bin", "replay"), rp], env=env, capture_output=True, text=True, timeout=900, cwd=VERIF)
            if a.returncode == 1 and "(as recorded)" in a.stdout:
                rep["reproduced_on_changed_tree"] += 1
            else:
                rep["problems"].append("changed tree: exit %d %s" % (a.returncode, a.stdout.strip().splitlines()[:1]))
            env0 = dict(env, VERIF_REPO=REPO)
            b = subprocess.run([os.path.join(VERIF, "bin", "replay"), rp], env=env0, capture_output=True, text=True, timeout=900, cwd=VERIF)
            if b.returncode == 0:
                rep["quiet_on_unchanged_tree"] += 1
            else:
                keep = os.path.join(VERIF, "scratch")
                os.makedirs(keep, exist_ok=True)
                shutil.copy(rp, keep)
                rep["problems"].append("UNCHANGED TREE ALARM: exit %d %s (copy kept in scratch/%s)" % (
                    b.returncode, b.stdout.strip().splitlines()[:2], os.path.basename(rp)))
        out["replays"] = rep
        return out
    finally:
        drop(t)


def main():
    a = sys.argv[1:]
    if not a:
        print(__doc__)
        return 2
    if a[0] == "confirm":
        print(json.dumps(confirm(a[1]), indent=1))
        return 0
    if a[0] == "run":
        tier = "quick"
        props = None
        runs = None
        ids = []
        i = 1
        while i < len(a):
            if a[i] == "--tier":
                tier = a[i + 1]; i += 2
            elif a[i] == "--props":
                props = a[i + 1].split(","); i += 2
            elif a[i] == "--runs":
                runs = int(a[i + 1]); i += 2
            else:
                ids.append(a[i]); i += 1
        base = os.path.join(VERIF, "seeded")
        if not ids:
            ids = sorted(x for x in os.listdir(base) if os.path.isdir(os.path.join(base, x)))
        keep = tempfile.mkdtemp(prefix="pyxab-ev-")
        for f in os.listdir(os.path.join(VERIF, "evidence")):
            shutil.copy(os.path.join(VERIF, "evidence", f), keep)
        results = {}
        rpath = os.path.join(base, "RESULTS.json")
        if os.path.exists(rpath):
            results = json.load(open(rpath))
        try:
            jobs = []
            for sid in ids:
                d = os.path.join(base, sid)
                meta = json.load(open(os.path.join(d, "meta.json")))
                for prop in (props or [meta["property"]]):
                    jobs.append((sid, d, prop))
            with ThreadPoolExecutor(max_workers=2) as ex:
                for (sid, d, prop), r in zip(jobs, ex.map(lambda j: run_check(j[1], j[2], tier, runs), jobs)):
                    status = "CAUGHT" if r["exit"] == 1 else ("MISSED" if r["exit"] == 0 else "HARNESS(%d)" % r["exit"])
                    print("%-28s %-4s %-8s %s" % (sid, prop, status, (r["signatures"] or [""])[0][:120]))
                    if r["tail"]:
                        print("    " + r["tail"].replace("\n", "\n    "))
                    sys.stdout.flush()
                    if r.get("replays", {}).get("problems"):
                        print("    REPLAY PROBLEMS: %s" % r["replays"]["problems"])
                    results.setdefault(sid, {})[prop + ":" + tier] = {"status": status, "signatures": r["signatures"],
                                                                       "replays": r.get("replays")}
        finally:
            for f in os.listdir(keep):
                shutil.copy(os.path.join(keep, f), os.path.join(VERIF, "evidence", f))
            shutil.rmtree(keep, ignore_errors=True)
        json.dump(results, open(rpath, "w"), indent=1, sort_keys=True)
        return 0
    return 2


if __name__ == "__main__":
    sys.exit(main())
