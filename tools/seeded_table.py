#!/venv/bin/python
"""seeded_table.py : regenerate seeded/TABLE.md from seeded/RESULTS.json and the READMEs of the changes."""
import os
import re
import json

VERIF = os.path.dirname(os.path.dirname(os.path.abspath(__file__)))
base = os.path.join(VERIF, "seeded")
res = json.load(open(os.path.join(base, "RESULTS.json")))
rows = ["| change | property | quick check of that property | reported as | replays: reproduced on the changed tree / quiet on /repo | what the change is (from its README) |",
        "|---|---|---|---|---|---|"]
n = caught = 0
for sid in sorted(x for x in os.listdir(base) if os.path.isdir(os.path.join(base, x))):
    meta = json.load(open(os.path.join(base, sid, "meta.json")))
    prop = meta["property"]
    r = (res.get(sid) or {}).get(prop + ":quick") or {}
    status = {"CAUGHT": "caught", "MISSED": "missed"}.get(r.get("status"), r.get("status") or "not run")
    sig = ""
    if r.get("signatures"):
        m = re.search(r"signature=(\S+)", r["signatures"][0])
        sig = "`%s`" % m.group(1) if m else ""
    rp = r.get("replays")
    rep = "%d / %d of %d" % (rp["reproduced_on_changed_tree"], rp["quiet_on_unchanged_tree"], min(rp["files"], 3)) if rp and rp.get("files") else ""
    readme = ""
    p = os.path.join(base, sid, "README.md")
    if os.path.exists(p):
        for line in open(p):
            line = line.strip().lstrip("#").strip()
            if line:
                readme = line[:110].replace("|", "/")
                break
    rows.append("| %s | %s | %s | %s | %s | %s |" % (sid, prop, status, sig, rep, readme))
    n += 1
    caught += status == "caught"
rows.append("")
rows.append("%d changes, %d reported by the quick check of their own property (batch seed 0)." % (n, caught))
open(os.path.join(base, "TABLE.md"), "w").write("\n".join(rows) + "\n")
print(n, caught)
