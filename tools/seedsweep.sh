#!/bin/sh
# false-alarm hunt: every quick check under several batch seeds; prints only non-zero exits
cd "$(dirname "$0")/.."
for sd in ${SEEDS:-1 2 3 4 5}; do
  for c in C01 C02 C03 C04 C05 C06 C07 C08 C09 C10 C11 C12 C13 C14 C15 C16; do
    out=$(VERIF_SEED=$sd bin/check $c --tier ${TIER:-quick} 2>&1); rc=$?
    echo "seed=$sd $c exit=$rc $(echo "$out" | tail -1)"
    if [ $rc -ne 0 ]; then echo "$out" | grep -v "^KNOWN" | cut -c1-500; fi
  done
done
